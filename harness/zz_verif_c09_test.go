package olric

// C09: a key is visible until its expiry and never after it.

import (
	"context"
	"encoding/json"
	"fmt"
	"strconv"
	"strings"
	"sync"
	"testing"
	"time"

	"github.com/olric-data/olric/internal/cluster/partitions"
	"github.com/olric-data/olric/internal/verifhook"
	"github.com/olric-data/olric/internal/zzverif/vcommon"
	"pgregory.net/rapid"
)

type c09Step struct {
	Op   string `json:"op"` // putttl put getput incr expire get nx xx waitafter evict
	Path int    `json:"path"`
	Pick int    `json:"pick,omitempty"`
	Form string `json:"form,omitempty"` // EX PX EXAT PXAT
	Ms   int64  `json:"ms,omitempty"`
	UseP bool   `json:"usep,omitempty"`
}

type c09Case struct {
	Opts  vOpts     `json:"opts"`
	Steps []c09Step `json:"steps"`
}

func genC09(t *rapid.T) *c09Case {
	c := &c09Case{}
	c.Opts.Members = rapid.IntRange(1, 3).Draw(t, "members")
	c.Opts.Replicas = rapid.IntRange(1, 2).Draw(t, "replicas")
	if c.Opts.Replicas > c.Opts.Members {
		c.Opts.Replicas = c.Opts.Members
	}
	c.Opts.Partitions = rapid.SampledFrom([]int{7, 13}).Draw(t, "partitions")
	if rapid.IntRange(0, 4).Draw(t, "defttl") == 0 {
		c.Opts.TTLms = rapid.SampledFrom([]int64{60, 150}).Draw(t, "ttlms")
	}
	n := rapid.IntRange(3, 12).Draw(t, "steps")
	ops := []string{"putttl", "putttl", "putttl", "put", "getput", "incr", "expire", "get", "get", "nx", "xx", "waitafter", "waitafter", "evict", "incracross"}
	for i := 0; i < n; i++ {
		s := c09Step{Op: rapid.SampledFrom(ops).Draw(t, "op"), Path: rapid.IntRange(1, 6).Draw(t, "path"), Pick: rapid.IntRange(0, 2).Draw(t, "pick")}
		switch s.Op {
		case "putttl":
			s.Form = rapid.SampledFrom([]string{"EX", "PX", "EXAT", "PXAT"}).Draw(t, "form")
			s.Ms = rapid.SampledFrom([]int64{20, 45, 90, 200, 400}).Draw(t, "ms")
		case "expire":
			s.Ms = rapid.SampledFrom([]int64{20, 60, 150, 400}).Draw(t, "ms")
			s.UseP = rapid.Bool().Draw(t, "usep")
		}
		c.Steps = append(c.Steps, s)
	}
	return c
}

const c09Guard = int64(2 * time.Millisecond)

type c09State struct {
	present bool
	val     int64
	hasDL   bool
	lo, hi  int64 // deadline window, unix ns
}

func runC09(c *c09Case) (v *vcommon.Violation, nontrivial, inconclusive bool) {
	cl, err := pooledCluster(c.Opts)
	if err != nil {
		return nil, false, true
	}
	ctx, cancel := context.WithTimeout(context.Background(), 60*time.Second)
	defer cancel()
	name := freshName("c09-")
	key := "k"
	st := c09State{}
	var log []string
	// status at an operation that ran during [inv, ret]: 1 present, 0 absent, -1 unknown
	status := func(inv, ret int64) int {
		if !st.present {
			return 0
		}
		if !st.hasDL {
			return 1
		}
		if ret < st.lo-c09Guard {
			return 1
		}
		if inv > st.hi+c09Guard {
			return 0
		}
		return -1
	}
	setDefaultTTL := func(r vRes) {
		st.hasDL = false
		if c.Opts.TTLms > 0 {
			st.hasDL = true
			st.lo, st.hi = r.Inv+c.Opts.TTLms*1e6, r.Ret+c.Opts.TTLms*1e6
		}
	}
	seq := int64(100)
	for i, s := range c.Steps {
		pc := &pathClient{cl: cl, dmap: name, path: s.Path, pick: s.Pick}
		bad := func(class, format string, args ...interface{}) *vcommon.Violation {
			cut := *c
			cut.Steps = c.Steps[:i+1]
			v := vcommon.NewViolation("C09", "ttl", class, &cut, format, args...)
			v.Message = fmt.Sprintf("step %d %s via %s: %s", i, vcommon.MustJSON(s), pathNames[s.Path], v.Message)
			v.History = vcommon.MustJSON(log)
			return v
		}
		seq += 10
		newVal := []byte(strconv.FormatInt(seq, 10))
		var r vRes
		note := func(stat int) {
			log = append(log, fmt.Sprintf("%d %s path=%d status=%d res=%s inv=%d ret=%d state=%+v", i, s.Op, s.Path, stat, r.String(), r.Inv, r.Ret, st))
		}
		expired := func(stat int) bool { return stat == 0 && st.present }
		switch s.Op {
		case "waitafter":
			if st.present && st.hasDL {
				if d := st.hi + 2*c09Guard - time.Now().UnixNano(); d > 0 {
					time.Sleep(time.Duration(d))
				}
			}
			continue
		case "evict":
			cl.ownerOf(name, key).db.dmap.VerifEvict(name, key)
			continue
		case "putttl":
			r = pc.put(ctx, key, newVal, putOpt{Exp: s.Form, Ms: s.Ms})
			note(status(r.Inv, r.Ret))
			if r.Err != "" {
				if strings.HasPrefix(r.Err, "other:") {
					return nil, nontrivial, true
				}
				return bad("put-error", "Put with %s failed: %s", s.Form, r.Err), nontrivial, false
			}
			st = c09State{present: true, val: seq, hasDL: true, lo: r.Inv + s.Ms*1e6, hi: r.Ret + s.Ms*1e6}
			if s.Form == "EXAT" || s.Form == "PXAT" {
				// the client computes the absolute deadline at invocation
				st.lo, st.hi = r.Inv+s.Ms*1e6-int64(time.Millisecond), r.Inv+s.Ms*1e6+int64(time.Millisecond)
			}
		case "put":
			r = pc.put(ctx, key, newVal, putOpt{})
			note(status(r.Inv, r.Ret))
			if r.Err != "" {
				if strings.HasPrefix(r.Err, "other:") {
					return nil, nontrivial, true
				}
				return bad("put-error", "plain Put failed: %s", r.Err), nontrivial, false
			}
			if st.present && st.hasDL {
				nontrivial = true // ttl-clearing step
			}
			st = c09State{present: true, val: seq}
			setDefaultTTL(r)
		case "getput":
			r = pc.getput(ctx, key, newVal)
			stat := status(r.Inv, r.Ret)
			note(stat)
			if r.Err != "" {
				if strings.HasPrefix(r.Err, "other:") {
					return nil, nontrivial, true
				}
				return bad("getput-error", "GetPut failed: %s", r.Err), nontrivial, false
			}
			if expired(stat) {
				nontrivial = true
			}
			switch stat {
			case 1:
				if !r.Found || string(r.Val) != strconv.FormatInt(st.val, 10) {
					return bad("getput-old", "GetPut on a live key returned %s, want old value %d", r.String(), st.val), nontrivial, false
				}
			case 0:
				if r.Found {
					return bad("expired-visible:getput", "GetPut returned old value %q of a key that is absent or past its deadline (deadline window [%d,%d], invoked %d)", r.Val, st.lo, st.hi, r.Inv), nontrivial, false
				}
			default:
				if r.Found && string(r.Val) != strconv.FormatInt(st.val, 10) {
					return bad("getput-old", "GetPut returned %q, the only stored value was %d", r.Val, st.val), nontrivial, false
				}
			}
			if st.present && st.hasDL {
				nontrivial = true
			}
			st = c09State{present: true, val: seq}
			setDefaultTTL(r)
		case "incr":
			ttlBefore := decodeCopy(cl.ownerOf(name, key).db.dmap.VerifRaw(name, key, partitions.PRIMARY))
			r = pc.incr(ctx, key, 7, false)
			stat := status(r.Inv, r.Ret)
			note(stat)
			// "Incr/Decr keep it": the stored deadline of a live key does not move earlier, and later only by
			// the time the operation itself took (it is re-computed from the remaining life)
			if ttlAfter := decodeCopy(cl.ownerOf(name, key).db.dmap.VerifRaw(name, key, partitions.PRIMARY)); r.Err == "" && stat == 1 &&
				ttlBefore.present && ttlBefore.ttl > 0 && ttlAfter.present && string(ttlAfter.value) == strconv.FormatInt(st.val+7, 10) {
				if ttlAfter.ttl < ttlBefore.ttl || ttlAfter.ttl > ttlBefore.ttl+(r.Ret-r.Inv)/1e6+1 {
					return bad("incr-moved-deadline", "Incr on a live key moved its stored deadline from %d to %d (the call took %.2f ms)", ttlBefore.ttl, ttlAfter.ttl, float64(r.Ret-r.Inv)/1e6), nontrivial, false
				}
			}
			if r.Err != "" {
				if strings.HasPrefix(r.Err, "other:") {
					return nil, nontrivial, true
				}
				return bad("incr-error", "Incr failed: %s", r.Err), nontrivial, false
			}
			if expired(stat) {
				nontrivial = true
			}
			fromLive, fromNone := st.val+7, int64(7)
			switch {
			case stat == 1 && r.Int != fromLive:
				return bad("incr-base", "Incr(7) on a live key holding %d returned %d", st.val, r.Int), nontrivial, false
			case stat == 0 && r.Int != fromNone:
				return bad("expired-visible:incr", "Incr(7) returned %d: it used the value of a key that is absent or past its deadline (window [%d,%d], invoked %d)", r.Int, st.lo, st.hi, r.Inv), nontrivial, false
			case stat == -1 && r.Int != fromLive && r.Int != fromNone:
				return bad("incr-base", "Incr(7) returned %d, want %d or %d", r.Int, fromLive, fromNone), nontrivial, false
			}
			if r.Int == fromLive && st.present && (stat != 0) {
				// keeps the deadline (re-computed from the remaining time: allow the call's duration)
				st.val = fromLive
				if st.hasDL {
					nontrivial = true
					st.lo -= 3 * int64(time.Millisecond)
					st.hi += (r.Ret - r.Inv) + 3*int64(time.Millisecond)
				}
			} else {
				st = c09State{present: true, val: fromNone}
				setDefaultTTL(r)
			}
		case "incracross":
			// An Incr that reads the key while it is live and writes it after the deadline has passed (the owner is
			// held between its read and its write, hook atomic.afterRead): Incr keeps the expiry, so what it stores
			// is past its deadline at once and must not be observable.
			t0 := time.Now().UnixNano()
			if !st.present || !st.hasDL || st.lo-t0 < 15*int64(time.Millisecond) || st.hi-t0 > 450*int64(time.Millisecond) {
				continue
			}
			owner := cl.ownerOf(name, key)
			until := st.hi + 3*c09Guard
			var once sync.Once
			verifhook.Set("atomic.afterRead", func(args ...string) {
				if len(args) >= 2 && args[0] == owner.name && args[1] == key {
					once.Do(func() {
						if d := until - time.Now().UnixNano(); d > 0 {
							time.Sleep(time.Duration(d))
						}
					})
				}
			})
			r = pc.incr(ctx, key, 7, false)
			verifhook.Set("atomic.afterRead", nil)
			note(-1)
			if r.Err != "" {
				if strings.HasPrefix(r.Err, "other:") {
					return nil, nontrivial, true
				}
				return bad("incr-error", "Incr failed: %s", r.Err), nontrivial, false
			}
			if r.Int != st.val+7 && r.Int != 7 {
				return bad("incr-base", "Incr(7) returned %d, want %d or 7", r.Int, st.val+7), nontrivial, false
			}
			if r.Int == 7 {
				// it found the key already gone (slow start): a fresh counter
				st = c09State{present: true, val: 7}
				setDefaultTTL(r)
				break
			}
			nontrivial = true
			// the deadline is the old one (plus the few microseconds Incr needs to re-compute it): it has passed
			st.val = r.Int
			st.hi += int64(time.Millisecond)
			if g := (&pathClient{cl: cl, dmap: name, path: pOwnerEmb}).get(ctx, key); g.Err != "notfound" && time.Now().UnixNano() > st.hi+c09Guard {
				return bad("expired-visible:after-incr", "an Incr read the key before its deadline (window [%d,%d]) and stored the new value after it; Incr keeps the expiry, yet Get returns %s at %d", st.lo, st.hi, g.String(), time.Now().UnixNano()), nontrivial, false
			}
		case "expire":
			r = pc.expire(ctx, key, s.Ms, s.UseP)
			stat := status(r.Inv, r.Ret)
			note(stat)
			if strings.HasPrefix(r.Err, "other:") {
				return nil, nontrivial, true
			}
			if expired(stat) {
				nontrivial = true
			}
			switch {
			case stat == 1 && r.Err != "":
				return bad("expire-live", "Expire on a live key failed: %s", r.Err), nontrivial, false
			case stat == 0 && r.Err != "notfound":
				return bad("expired-visible:expire", "Expire on a key that is absent or past its deadline returned %q, want key-not-found (window [%d,%d], invoked %d)", r.Err, st.lo, st.hi, r.Inv), nontrivial, false
			case r.Err != "" && r.Err != "notfound":
				return bad("expire-error", "Expire failed: %s", r.Err), nontrivial, false
			}
			if r.Err == "" {
				nontrivial = true
				st.hasDL, st.lo, st.hi = true, r.Inv+s.Ms*1e6, r.Ret+s.Ms*1e6
			} else {
				st = c09State{}
			}
		case "get":
			r = pc.get(ctx, key)
			stat := status(r.Inv, r.Ret)
			note(stat)
			if strings.HasPrefix(r.Err, "other:") {
				return nil, nontrivial, true
			}
			switch stat {
			case 1:
				if r.Err != "" || string(r.Val) != strconv.FormatInt(st.val, 10) {
					return bad("live-invisible", "Get before the deadline returned %s, want %d (deadline window [%d,%d], responded %d)", r.String(), st.val, st.lo, st.hi, r.Ret), nontrivial, false
				}
				if r.TTL >= 0 {
					if !st.hasDL && r.TTL != 0 {
						return bad("ttl-not-cleared", "TTL() = %d on a key whose expiry was cleared", r.TTL), nontrivial, false
					}
					if st.hasDL && (r.TTL < st.lo/1e6-2 || r.TTL > st.hi/1e6+2) {
						return bad("ttl-value", "TTL() = %d, want within [%d,%d]", r.TTL, st.lo/1e6, st.hi/1e6), nontrivial, false
					}
				}
			case 0:
				if r.Err != "notfound" {
					return bad("expired-visible:get", "Get returned %s for a key that is absent or past its deadline (window [%d,%d], invoked %d)", r.String(), st.lo, st.hi, r.Inv), nontrivial, false
				}
			default:
				if r.Err == "" && string(r.Val) != strconv.FormatInt(st.val, 10) {
					return bad("live-invisible", "Get returned %s, the only stored value was %d", r.String(), st.val), nontrivial, false
				}
			}
			if r.Err == "notfound" {
				st = c09State{}
			}
		case "nx", "xx":
			r = pc.put(ctx, key, newVal, putOpt{Cond: strings.ToUpper(s.Op)})
			stat := status(r.Inv, r.Ret)
			note(stat)
			if strings.HasPrefix(r.Err, "other:") {
				return nil, nontrivial, true
			}
			if expired(stat) {
				nontrivial = true
			}
			wantLive, wantNone := "keyfound", ""
			if s.Op == "xx" {
				wantLive, wantNone = "", "notfound"
			}
			switch {
			case stat == 1 && r.Err != wantLive:
				return bad("cond-live:"+s.Op, "Put %s on a live key returned %q, want %q", s.Op, r.Err, wantLive), nontrivial, false
			case stat == 0 && r.Err != wantNone:
				return bad("expired-visible:"+s.Op, "Put %s on a key that is absent or past its deadline returned %q, want %q (window [%d,%d], invoked %d)", s.Op, r.Err, wantNone, st.lo, st.hi, r.Inv), nontrivial, false
			case r.Err != wantLive && r.Err != wantNone:
				return bad("cond-error", "Put %s failed: %s", s.Op, r.Err), nontrivial, false
			}
			if r.Err == "" {
				st = c09State{present: true, val: seq}
				setDefaultTTL(r)
			} else if r.Err == "notfound" {
				st = c09State{}
			}
		}
	}
	return nil, nontrivial, false
}

func TestVerifC09(t *testing.T) {
	p := vcommon.Env()
	t.Cleanup(shutdownPool)
	if p.Replay != "" {
		v, err := vcommon.LoadViolation(p.Replay)
		if err != nil {
			t.Fatal(err)
		}
		c := &c09Case{}
		if err := json.Unmarshal(v.Case, c); err != nil {
			t.Fatal(err)
		}
		for i := 0; i < 5; i++ {
			got, _, _ := runC09(c)
			if got != nil {
				path := vcommon.SaveViolation(got)
				fmt.Printf("VERIF-VIOLATION %s %s\n", path, got.Message)
				t.Fatalf("replay still fails: %s", got.Message)
			}
		}
		return
	}
	col := vcommon.NewCollector("C09", "ttl")
	t.Cleanup(col.Flush)
	rapid.Check(t, func(rt *rapid.T) {
		c := genC09(rt)
		v, nt, inc := runC09(c)
		if inc || (v != nil && vFlapsSinceMark() > 0) {
			col.Inconclusive()
			return
		}
		labels := []string{fmt.Sprintf("members:%d", c.Opts.Members)}
		if c.Opts.TTLms > 0 {
			labels = append(labels, "default-ttl")
		}
		col.Record(vcommon.MustJSON(c), nt, labels...)
		if v != nil {
			if vcommon.Known(v.Class) {
				col.ExcludedKnown()
				return
			}
			vcommon.SaveViolation(v)
			rt.Fatalf("%s", v.Message)
		}
	})
}
