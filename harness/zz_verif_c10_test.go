package olric

// C10: eviction keeps a DMap within its configured bounds without harming fresh keys.

import (
	"context"
	"encoding/json"
	"fmt"
	"strings"
	"testing"
	"time"

	"github.com/olric-data/olric/internal/cluster/partitions"
	"github.com/olric-data/olric/internal/zzverif/vcommon"
	"pgregory.net/rapid"
)

type c10Case struct {
	Kind string `json:"kind"` // limits | idle
	Opts vOpts  `json:"opts"`
	// limits
	Puts    int    `json:"puts,omitempty"`
	KeySeed uint64 `json:"key_seed,omitempty"`
	Skew    bool   `json:"skew,omitempty"` // most keys go to two partitions
	ValLen  int    `json:"val_len,omitempty"`
	GetPct  int    `json:"get_pct,omitempty"`
	// idle
	Keys    int   `json:"keys,omitempty"`
	Touched []int `json:"touched,omitempty"` // indexes of keys that are kept alive
	Rounds  int   `json:"rounds,omitempty"`
	ByPut   bool  `json:"by_put,omitempty"` // keep alive with Put instead of Get
	Fill    int   `json:"fill,omitempty"`   // other keys written after the asserted ones: with a small table size the asserted keys end up in older tables
}

func genC10Limits(t *rapid.T) *c10Case {
	c := &c10Case{Kind: "limits"}
	c.Opts.Members = rapid.IntRange(1, 2).Draw(t, "members")
	c.Opts.Replicas = rapid.IntRange(1, c.Opts.Members).Draw(t, "replicas")
	c.Opts.Partitions = rapid.SampledFrom([]int{7, 13, 31}).Draw(t, "partitions")
	c.ValLen = rapid.SampledFrom([]int{10, 40}).Draw(t, "vallen")
	entry := 29 + 8 + c.ValLen
	switch rapid.SampledFrom([]string{"keys", "keys", "inuse", "inuse", "both"}).Draw(t, "limit") {
	case "keys":
		c.Opts.MaxKeys = rapid.SampledFrom([]int{1, 3, 5, 10, 20, 40, 60}).Draw(t, "maxKeys")
	case "inuse":
		c.Opts.MaxInuse = entry * rapid.SampledFrom([]int{3, 10, 30, 80}).Draw(t, "maxEntries")
	default:
		// both limits on one DMap; either may be the tighter one
		c.Opts.MaxKeys = rapid.SampledFrom([]int{10, 40, 1000}).Draw(t, "maxKeysBoth")
		c.Opts.MaxInuse = entry * rapid.SampledFrom([]int{10, 30, 2000}).Draw(t, "maxEntriesBoth")
	}
	c.Opts.LRUSamples = rapid.SampledFrom([]int{1, 2, 5, 10}).Draw(t, "lruSamples")
	c.Puts = rapid.IntRange(50, 300).Draw(t, "puts")
	c.KeySeed = rapid.Uint64().Draw(t, "seed")
	c.Skew = rapid.Bool().Draw(t, "skew")
	c.GetPct = rapid.SampledFrom([]int{0, 20}).Draw(t, "getPct")
	return c
}

func runC10Limits(c *c10Case) (v *vcommon.Violation, nontrivial, inconclusive bool) {
	cl, err := pooledCluster(c.Opts)
	if err != nil {
		return nil, false, true
	}
	ctx, cancel := context.WithTimeout(context.Background(), 60*time.Second)
	defer cancel()
	name := freshName("c10-")
	bad := func(class, format string, args ...interface{}) *vcommon.Violation {
		return vcommon.NewViolation("C10", "limits", class, c, format, args...)
	}
	P := uint64(c.Opts.Partitions)
	rng := &vsplitmix{x: c.KeySeed}
	// keys pre-bucketed by partition so that a skew is real
	buckets := map[uint64][]string{}
	for i := 0; len(buckets) < int(P) || i < 4000; i++ {
		k := fmt.Sprintf("k%05d", i) // 6 bytes... keep the length fixed: equally sized entries
		k = k + "__"
		p := partitions.HKey(name, k) % P
		if len(buckets[p]) < 200 {
			buckets[p] = append(buckets[p], k)
		}
		if i > 20000 {
			break
		}
	}
	hot := []uint64{rng.next() % P, rng.next() % P}
	evicted := false
	val := []byte(strings.Repeat("v", c.ValLen))
	entrySize := 29 + 8 + c.ValLen
	live := cl.live()
	var lastKeys []string
	for i := 0; i < c.Puts; i++ {
		p := rng.next() % P
		if c.Skew && rng.next()%10 < 8 {
			p = hot[rng.next()%2]
		}
		bk := buckets[p]
		if len(bk) == 0 {
			continue
		}
		key := bk[rng.next()%uint64(len(bk))]
		m := live[int(rng.next()%uint64(len(live)))]
		dm, err := m.emb.NewDMap(name)
		if err != nil {
			return nil, nontrivial, true
		}
		if c.GetPct > 0 && int(rng.next()%100) < c.GetPct && len(lastKeys) > 0 {
			_, _ = dm.Get(ctx, lastKeys[rng.next()%uint64(len(lastKeys))])
		}
		if err := dm.Put(ctx, key, val); err != nil {
			if strings.HasPrefix(errClass(err), "other:") && !strings.Contains(err.Error(), "LRU") && !strings.Contains(err.Error(), "expire") {
				return nil, nontrivial, true
			}
			return bad("put-fails-at-limit", "Put %d (key %s, partition %d) failed: %v (MaxKeys %d, MaxInuse %d, LRUSamples %d)", i, key, p, err, c.Opts.MaxKeys, c.Opts.MaxInuse, c.Opts.LRUSamples), nontrivial, false
		}
		lastKeys = append(lastKeys, key)
		if len(lastKeys) > 20 {
			lastKeys = lastKeys[1:]
		}
		// the key just written is readable
		g := fromGetResponse(dm.Get(ctx, key))
		if g.Err != "" || string(g.Val) != string(val) {
			return bad("fresh-key-missing", "Put %d: the key %s just written reads %s", i, key, g.String()), nontrivial, false
		}
		// bounds on every member
		for _, mm := range live {
			owned := mm.db.dmap.VerifOwnedPartitions()
			if owned == 0 {
				continue
			}
			total, totalInuse := 0, 0
			for pp := uint64(0); pp < P; pp++ {
				if mm.db.primary.PartitionByID(pp).Owner().Name != mm.name {
					continue
				}
				st, ok := mm.db.dmap.VerifFragmentStats(name, pp, partitions.PRIMARY)
				if !ok {
					continue
				}
				total += st.Length
				totalInuse += st.Inuse
				if c.Opts.MaxKeys > 0 {
					share := c.Opts.MaxKeys / int(owned)
					if share < 1 {
						share = 1
					}
					if st.Length > share {
						return bad("partition-over-share", "after Put %d partition %d on %s holds %d keys; MaxKeys %d over %d owned partitions allows %d", i, pp, mm.name, st.Length, c.Opts.MaxKeys, owned, share), nontrivial, false
					}
					if st.Length == share {
						evicted = evicted || i > share
					}
				}
				if c.Opts.MaxInuse > 0 {
					limit := c.Opts.MaxInuse/int(owned) + entrySize
					if st.Inuse > limit {
						return bad("partition-over-inuse", "after Put %d partition %d on %s uses %d bytes; MaxInuse %d over %d owned partitions allows %d plus one entry of %d", i, pp, mm.name, st.Inuse, c.Opts.MaxInuse, owned, c.Opts.MaxInuse/int(owned), entrySize), nontrivial, false
					}
					if st.Inuse+entrySize > c.Opts.MaxInuse/int(owned) {
						evicted = true
					}
				}
			}
			if c.Opts.MaxKeys > 0 {
				lim := c.Opts.MaxKeys
				if int(owned) > lim {
					lim = int(owned)
				}
				if total > lim {
					return bad("member-over-maxkeys", "after Put %d member %s holds %d keys of the DMap; MaxKeys is %d (%d owned partitions)", i, mm.name, total, c.Opts.MaxKeys, owned), nontrivial, false
				}
			}
			if c.Opts.MaxInuse > 0 {
				if totalInuse > c.Opts.MaxInuse+int(owned)*entrySize {
					return bad("member-over-maxinuse", "after Put %d member %s uses %d bytes for the DMap; MaxInuse is %d (+ one entry per owned partition, %d)", i, mm.name, totalInuse, c.Opts.MaxInuse, int(owned)*entrySize), nontrivial, false
				}
			}
		}
	}
	nontrivial = evicted || (c.Opts.MaxKeys > 0 && c.Opts.MaxKeys < c.Opts.Partitions) || c.Skew
	return nil, nontrivial, false
}

func genC10Idle(t *rapid.T) *c10Case {
	c := &c10Case{Kind: "idle"}
	c.Opts.Members = rapid.IntRange(1, 2).Draw(t, "members")
	c.Opts.Replicas = rapid.IntRange(1, c.Opts.Members).Draw(t, "replicas")
	c.Opts.Partitions = rapid.SampledFrom([]int{7, 13}).Draw(t, "partitions")
	c.Opts.MaxIdleMs = rapid.SampledFrom([]int64{150, 250}).Draw(t, "idle")
	c.Keys = rapid.IntRange(4, 20).Draw(t, "keys")
	for i := 0; i < c.Keys; i++ {
		if rapid.Bool().Draw(t, "touch") {
			c.Touched = append(c.Touched, i)
		}
	}
	c.Rounds = rapid.IntRange(4, 7).Draw(t, "rounds")
	c.ByPut = rapid.Bool().Draw(t, "byPut")
	if rapid.Bool().Draw(t, "multiTable") {
		c.Opts.TableSize = 512
		c.Opts.MaxIdleMs = rapid.SampledFrom([]int64{250, 400}).Draw(t, "idleMulti")
		c.Fill = c.Opts.Partitions * rapid.IntRange(12, 20).Draw(t, "fill")
	}
	return c
}

func runC10Idle(c *c10Case) (v *vcommon.Violation, nontrivial, inconclusive bool) {
	cl, err := pooledCluster(c.Opts)
	if err != nil {
		return nil, false, true
	}
	ctx, cancel := context.WithTimeout(context.Background(), 60*time.Second)
	defer cancel()
	name := freshName("c10i-")
	bad := func(class, format string, args ...interface{}) *vcommon.Violation {
		return vcommon.NewViolation("C10", "idle", class, c, format, args...)
	}
	W := time.Duration(c.Opts.MaxIdleMs) * time.Millisecond
	keyName := func(i int) string { return fmt.Sprintf("idle-key-%d", i) }
	touched := map[int]bool{}
	for _, i := range c.Touched {
		touched[i] = true
	}
	m := cl.live()[0]
	dm, err := m.emb.NewDMap(name)
	if err != nil {
		return nil, false, true
	}
	lastTouch := map[int]time.Time{}
	maxGap := map[int]time.Duration{}
	for i := 0; i < c.Keys; i++ {
		if err := dm.Put(ctx, keyName(i), []byte("v")); err != nil {
			return nil, false, true
		}
		lastTouch[i] = time.Now()
	}
	for i := 0; i < c.Fill; i++ {
		// not asserted: these push the keys above into older (read-only) tables of their fragments
		if err := dm.Put(ctx, fmt.Sprintf("fill-%d", i), []byte("ffffffffffffffffffff")); err != nil {
			return nil, false, true
		}
	}
	start := time.Now()
	// keep the touched keys alive: one access every W/3
	for r := 0; r < c.Rounds; r++ {
		time.Sleep(W / 3)
		for _, i := range c.Touched {
			before := time.Now()
			gap := before.Sub(lastTouch[i])
			var g vRes
			if c.ByPut {
				if err := dm.Put(ctx, keyName(i), []byte("v")); err != nil {
					return nil, nontrivial, true
				}
				g = vRes{Found: true}
			} else {
				g = fromGetResponse(dm.Get(ctx, keyName(i)))
			}
			after := time.Now()
			// the gap the member saw is at most (response of this access) - (invocation of the previous one)
			worst := after.Sub(lastTouch[i])
			if worst > maxGap[i] {
				maxGap[i] = worst
			}
			_ = gap
			if g.Err == "notfound" && maxGap[i] < W-20*time.Millisecond {
				return bad("active-key-evicted", "key %s was accessed at most %v apart (idle window %v) but reads not-found in round %d", keyName(i), maxGap[i], W, r), nontrivial, false
			}
			if g.Err != "" && g.Err != "notfound" {
				return nil, nontrivial, true
			}
			lastTouch[i] = before
		}
	}
	// the untouched keys have been idle for Rounds*W/3 > W + 20ms: one explicit scan of every fragment
	if time.Since(start) <= W+20*time.Millisecond {
		time.Sleep(W + 25*time.Millisecond - time.Since(start))
	}
	// One eviction scan samples at most 19 keys of a fragment, newest table first. Without filler keys a fragment
	// holds fewer than that and one scan decides; with them "eventually" takes a few scans: the (equally idle)
	// filler keys in the newer tables go first.
	scans := 1
	if c.Fill > 0 {
		scans = 2 + (c.Fill/c.Opts.Partitions+c.Keys)/4
	}
	for s := 0; s < scans; s++ {
		for i := 0; i < c.Keys; i++ {
			cl.ownerOf(name, keyName(i)).db.dmap.VerifEvict(name, keyName(i))
		}
	}
	for i := 0; i < c.Keys; i++ {
		key := keyName(i)
		owner := cl.ownerOf(name, key)
		onPrimary := owner.db.dmap.VerifCheck(name, key, partitions.PRIMARY)
		if touched[i] {
			// accessed right before the scan: must still be there (if every gap stayed inside the window)
			if !onPrimary && maxGap[i] < W-20*time.Millisecond && time.Since(lastTouch[i]) < W-20*time.Millisecond {
				return bad("active-key-evicted", "key %s was accessed at most %v apart (idle window %v) but is gone after the eviction scan", key, maxGap[i], W), nontrivial, false
			}
		}
	}
	if c.Fill > 0 {
		// Evicting the filler keys leaves garbage; the compaction worker then moves the surviving entries, and
		// its table walk counts as an access (Table.Range refreshes LASTACCESS). "Eventually" therefore means:
		// within a few more windows, with eviction scans going on as the background workers would do.
		deadline := time.Now().Add(3*W + time.Second)
		for time.Now().Before(deadline) {
			pending := false
			for i := 0; i < c.Keys; i++ {
				if owner := cl.ownerOf(name, keyName(i)); !touched[i] && owner.db.dmap.VerifCheck(name, keyName(i), partitions.PRIMARY) {
					pending = true
					owner.db.dmap.VerifEvict(name, keyName(i))
				}
			}
			if !pending {
				break
			}
			time.Sleep(40 * time.Millisecond)
		}
	}
	for i := 0; i < c.Keys; i++ {
		key := keyName(i)
		owner := cl.ownerOf(name, key)
		onPrimary := owner.db.dmap.VerifCheck(name, key, partitions.PRIMARY)
		if touched[i] {
			continue
		}
		nontrivial = true
		if onPrimary {
			return bad("idle-key-not-evicted", "key %s was left untouched for %v (idle window %v) and an eviction scan ran over its fragment, but the owner %s still stores it", key, time.Since(lastTouch[i]), W, owner.name), nontrivial, false
		}
		for _, b := range cl.backupsOf(name, key) {
			if b.db.dmap.VerifCheck(name, key, partitions.BACKUP) {
				return bad("idle-key-left-on-backup", "key %s was evicted for idleness on the owner but its backup owner %s still stores it", key, b.name), nontrivial, false
			}
		}
	}
	return nil, nontrivial, false
}

func runC10(c *c10Case) (*vcommon.Violation, bool, bool) {
	if c.Kind == "idle" {
		return runC10Idle(c)
	}
	return runC10Limits(c)
}

func c10Test(t *testing.T, kind string) {
	p := vcommon.Env()
	t.Cleanup(shutdownPool)
	if p.Replay != "" {
		v, err := vcommon.LoadViolation(p.Replay)
		if err != nil {
			t.Fatal(err)
		}
		c := &c10Case{}
		if err := json.Unmarshal(v.Case, c); err != nil {
			t.Fatal(err)
		}
		if c.Kind != kind {
			return
		}
		for i := 0; i < 3; i++ {
			got, _, inc := runC10(c)
			if inc {
				continue
			}
			if got != nil {
				path := vcommon.SaveViolation(got)
				fmt.Printf("VERIF-VIOLATION %s %s\n", path, got.Message)
				t.Fatalf("replay still fails: %s", got.Message)
			}
		}
		return
	}
	col := vcommon.NewCollector("C10", kind)
	t.Cleanup(col.Flush)
	rapid.Check(t, func(rt *rapid.T) {
		var c *c10Case
		if kind == "idle" {
			c = genC10Idle(rt)
		} else {
			c = genC10Limits(rt)
		}
		v, nt, inc := runC10(c)
		if inc || (v != nil && transportNoise(v.Message)) {
			col.Inconclusive()
			return
		}
		labels := []string{fmt.Sprintf("members:%d", c.Opts.Members)}
		if c.Opts.MaxKeys > 0 {
			labels = append(labels, "maxkeys")
			if c.Opts.MaxKeys < c.Opts.Partitions {
				labels = append(labels, "maxkeys<partitions")
			}
		}
		if c.Opts.MaxInuse > 0 {
			labels = append(labels, "maxinuse")
		}
		if c.Skew {
			labels = append(labels, "skew")
		}
		if c.Fill > 0 {
			labels = append(labels, "idle:older-tables")
		}
		col.Record(vcommon.MustJSON(c), nt, labels...)
		if v != nil {
			if vcommon.Known(v.Class) {
				col.ExcludedKnown()
				return
			}
			vcommon.SaveViolation(v)
			rt.Fatalf("%s", v.Message)
		}
	})
}

func TestVerifC10Limits(t *testing.T) { c10Test(t, "limits") }
func TestVerifC10Idle(t *testing.T)   { c10Test(t, "idle") }
