package olric

// C07, part "retry": an atomic operation forwarded to the key's owner while the owner is slow.
//
// With the default client configuration (ReadTimeout 3 s, MaxRetries 3) the member that forwards an Incr, Decr,
// IncrByFloat or GetPut re-sends the request when the owner does not answer in time. The owner is still executing
// the first copy; the second one queues behind the key's lock and is applied as well. Every other harness cluster
// runs with re-sending switched off (vOpts.ClientRetries); this part switches it on, shortens the read timeout and
// makes the owner stall once, between reading and writing (hook atomic.afterRead), for longer than that timeout.
// One acknowledged call must have exactly one effect.

import (
	"context"
	"encoding/json"
	"fmt"
	"strconv"
	"sync"
	"testing"
	"time"

	"github.com/olric-data/olric/internal/cluster/partitions"
	"github.com/olric-data/olric/internal/verifhook"
	"github.com/olric-data/olric/internal/zzverif/vcommon"
	"pgregory.net/rapid"
)

type c07RetryCase struct {
	Op            string `json:"op"`   // incr decr incrbyfloat getput
	Path          int    `json:"path"` // pOtherEmb or pOtherRaw: the request is forwarded by a member that does not own the key
	ReadTimeoutMs int64  `json:"read_timeout_ms"`
	StallMs       int64  `json:"stall_ms"` // how long the owner stalls once; 0 = no stall (control)
	Replicas      int    `json:"replicas"`
	NoRetries     bool   `json:"no_retries,omitempty"` // Client.MaxRetries = -1: the stalled call must fail instead of being re-sent
}

func genC07Retry(t *rapid.T) *c07RetryCase {
	c := &c07RetryCase{
		Op:            rapid.SampledFrom([]string{"incr", "decr", "incrbyfloat", "getput"}).Draw(t, "op"),
		Path:          rapid.SampledFrom([]int{pOtherEmb, pOtherRaw}).Draw(t, "path"),
		ReadTimeoutMs: rapid.SampledFrom([]int64{400, 600}).Draw(t, "readTimeout"),
		Replicas:      rapid.IntRange(1, 2).Draw(t, "replicas"),
	}
	c.StallMs = rapid.SampledFrom([]int64{0, c.ReadTimeoutMs + 150, c.ReadTimeoutMs + 150, 2*c.ReadTimeoutMs + 150}).Draw(t, "stall")
	c.NoRetries = rapid.IntRange(0, 2).Draw(t, "noRetries") == 0
	return c
}

func runC07Retry(c *c07RetryCase) (v *vcommon.Violation, nontrivial, inconclusive bool) {
	opts := vOpts{Members: 2, Replicas: c.Replicas, Partitions: 7, ClientRetries: !c.NoRetries, ClientReadTimeoutMs: c.ReadTimeoutMs}
	cl, err := pooledCluster(opts)
	if err != nil {
		return nil, false, true
	}
	defer verifhook.Reset()
	ctx, cancel := context.WithTimeout(context.Background(), 30*time.Second)
	defer cancel()
	name := freshName("c07r-")
	key := "counter"
	owner := cl.ownerOf(name, key)
	bad := func(class, format string, args ...interface{}) *vcommon.Violation {
		if c.NoRetries {
			// re-sending was switched off (Client.MaxRetries = -1): nothing may be applied twice, and this is not
			// the recorded finding
			class = "applied-twice-although-retries-disabled"
		}
		return vcommon.NewViolation("C07", "retry", class, c, format, args...)
	}
	prep := &pathClient{cl: cl, dmap: name, path: pOwnerEmb}
	initial := "10"
	if c.Op == "getput" {
		initial = "first"
	}
	if r := prep.put(ctx, key, []byte(initial), putOpt{}); r.Err != "" {
		return nil, false, true
	}
	var once sync.Once
	stalled := false
	if c.StallMs > 0 {
		verifhook.Set("atomic.afterRead", func(args ...string) {
			if len(args) >= 2 && args[0] == owner.name && args[1] == key {
				once.Do(func() {
					stalled = true
					time.Sleep(time.Duration(c.StallMs) * time.Millisecond)
				})
			}
		})
	}
	pc := &pathClient{cl: cl, dmap: name, path: c.Path}
	// The shortened read timeout also governs the members' own traffic (routing pushes, pings); on a busy machine
	// that can unsettle the cluster itself. The scenario only counts when the forwarding member sees the prepared
	// value and both members agree on who owns the key, before and after.
	agree := func() bool {
		if !cl.stableNow() {
			return false
		}
		first := ""
		for i, m := range cl.live() {
			o := m.db.primary.PartitionByHKey(partitions.HKey(name, key)).Owner().String()
			if i == 0 {
				first = o
			} else if o != first {
				return false
			}
		}
		return first == owner.name
	}
	if g0 := pc.get(ctx, key); g0.Err != "" || string(g0.Val) != initial || !agree() {
		return nil, false, true
	}
	var r vRes
	switch c.Op {
	case "incr":
		r = pc.incr(ctx, key, 1, false)
	case "decr":
		r = pc.incr(ctx, key, 1, true)
	case "incrbyfloat":
		r = pc.incrByFloat(ctx, key, 1)
	case "getput":
		r = pc.getput(ctx, key, []byte("second"))
	}
	// let a re-sent copy that is still queued finish before the final read
	time.Sleep(time.Duration(c.StallMs+50) * time.Millisecond)
	verifhook.Set("atomic.afterRead", nil)
	final := prep.get(ctx, key)
	if final.Err != "" || !agree() {
		return nil, false, true
	}
	nontrivial = c.StallMs > c.ReadTimeoutMs && stalled
	what := fmt.Sprintf("%s forwarded through %s, owner stalled %d ms once (read timeout %d ms, 3 re-sends): call returned %s, the key then reads %q",
		c.Op, pathNames[c.Path], c.StallMs, c.ReadTimeoutMs, r.String(), final.Val)
	switch c.Op {
	case "getput":
		// the call replaces "first" by "second": applied once it returns "first"; applied twice its second copy returns "second"
		if r.Err == "" && string(r.Val) != "first" {
			return bad("resent-after-timeout-applied-twice", "%s; the old value of the single acknowledged GetPut must be \"first\"", what), nontrivial, false
		}
	default:
		want := map[string]string{"incr": "11", "decr": "9", "incrbyfloat": "11"}[c.Op]
		got := string(final.Val)
		if f, err := strconv.ParseFloat(got, 64); err == nil {
			got = strconv.FormatFloat(f, 'f', -1, 64)
		}
		if r.Err == "" && got != want {
			return bad("resent-after-timeout-applied-twice", "%s; one acknowledged call on 10 must leave %s", what, want), nontrivial, false
		}
		if r.Err != "" && got != want && got != "10" {
			return bad("resent-after-timeout-applied-twice", "%s; a failed call may have been applied once or not at all", what), nontrivial, false
		}
	}
	return nil, nontrivial, false
}

func TestVerifC07Retry(t *testing.T) {
	p := vcommon.Env()
	t.Cleanup(shutdownPool)
	if p.Replay != "" {
		v, err := vcommon.LoadViolation(p.Replay)
		if err != nil {
			t.Fatal(err)
		}
		c := &c07RetryCase{}
		if err := json.Unmarshal(v.Case, c); err != nil {
			t.Fatal(err)
		}
		got, _, _ := runC07Retry(c)
		if got != nil {
			path := vcommon.SaveViolation(got)
			fmt.Printf("VERIF-VIOLATION %s %s\n", path, got.Message)
			t.Fatalf("replay still fails: %s", got.Message)
		}
		return
	}
	col := vcommon.NewCollector("C07", "retry")
	t.Cleanup(col.Flush)
	rapid.Check(t, func(rt *rapid.T) {
		c := genC07Retry(rt)
		v, nt, inc := runC07Retry(c)
		if inc || (v != nil && vFlapsSinceMark() > 0) {
			col.Inconclusive()
			return
		}
		col.Record(vcommon.MustJSON(c), nt, "op:"+c.Op, fmt.Sprintf("stall>timeout:%v", c.StallMs > c.ReadTimeoutMs))
		if v != nil {
			if vcommon.Known(v.Class) {
				col.ExcludedKnown()
				return
			}
			vcommon.SaveViolation(v)
			rt.Fatalf("%s", v.Message)
		}
	})
}
