package olric

// C07: Incr, Decr, IncrByFloat and GetPut are atomic across all clients.

import (
	"context"
	"encoding/json"
	"fmt"
	"sort"
	"strconv"
	"strings"
	"sync"
	"testing"
	"time"

	"github.com/anishathalye/porcupine"
	"github.com/olric-data/olric/internal/verifhook"
	"github.com/olric-data/olric/internal/zzverif/vcommon"
	"pgregory.net/rapid"
)

type c07Caller struct {
	Path   int   `json:"path"`
	Pick   int   `json:"pick"`
	Deltas []int `json:"deltas"` // incr: delta (negative = Decr of -delta); float: multiples of 0.25; getput: count only
}

type c07Case struct {
	Opts    vOpts       `json:"opts"`
	Mode    string      `json:"mode"` // int | float | getput
	Initial int         `json:"initial"`
	YieldUs int         `json:"yield_us,omitempty"`
	Callers []c07Caller `json:"callers"`
}

type c07Event struct {
	Caller int     `json:"caller"`
	Path   int     `json:"path"`
	Delta  int     `json:"delta"`
	Int    int64   `json:"int"`
	F      float64 `json:"f"`
	Val    string  `json:"val,omitempty"` // getput: written value
	Old    string  `json:"old,omitempty"` // getput: returned value
	Found  bool    `json:"found,omitempty"`
	Err    string  `json:"err,omitempty"`
	Inv    int64   `json:"inv"`
	Ret    int64   `json:"ret"`
}

func genC07(t *rapid.T) *c07Case {
	c := &c07Case{}
	c.Opts.Members = rapid.IntRange(1, 3).Draw(t, "members")
	c.Opts.Replicas = rapid.IntRange(1, 2).Draw(t, "replicas")
	if c.Opts.Replicas > c.Opts.Members {
		c.Opts.Replicas = c.Opts.Members
	}
	c.Opts.Partitions = 7
	c.Opts.TableSize = rapid.SampledFrom([]int{0, 1024}).Draw(t, "tableSize")
	c.Mode = rapid.SampledFrom([]string{"int", "int", "float", "getput"}).Draw(t, "mode")
	c.Initial = rapid.SampledFrom([]int{0, 0, 100}).Draw(t, "initial")
	c.YieldUs = rapid.SampledFrom([]int{0, 100, 1000}).Draw(t, "yield")
	n := rapid.IntRange(2, 8).Draw(t, "callers")
	for i := 0; i < n; i++ {
		cc := c07Caller{Path: rapid.IntRange(1, 5).Draw(t, "path"), Pick: rapid.IntRange(0, 2).Draw(t, "pick")}
		m := rapid.IntRange(5, 40).Draw(t, "ops")
		for j := 0; j < m; j++ {
			cc.Deltas = append(cc.Deltas, rapid.SampledFrom([]int{1, 1, 2, 5, -3}).Draw(t, "delta"))
		}
		c.Callers = append(c.Callers, cc)
	}
	return c
}

var c07CounterModel = porcupine.Model{
	Init: func() interface{} { return int64(0) },
	Step: func(state, input, output interface{}) (bool, interface{}) {
		ev := input.(c07Event)
		ns := state.(int64) + int64(ev.Delta)
		return ev.Int == ns, ns
	},
	Equal: func(a, b interface{}) bool { return a.(int64) == b.(int64) },
	DescribeOperation: func(input, output interface{}) string {
		ev := input.(c07Event)
		return fmt.Sprintf("add(%d)->%d via %s", ev.Delta, ev.Int, pathNames[ev.Path])
	},
}

func runC07(c *c07Case) (v *vcommon.Violation, nontrivial, inconclusive bool) {
	cl, err := pooledCluster(c.Opts)
	if err != nil {
		return nil, false, true
	}
	ctx, cancel := context.WithTimeout(context.Background(), 60*time.Second)
	defer cancel()
	name := freshName("c07-")
	key := "counter"
	prep := &pathClient{cl: cl, dmap: name, path: pOwnerEmb}
	scale := int64(1)
	switch c.Mode {
	case "int":
		if c.Initial != 0 {
			if r := prep.put(ctx, key, []byte(strconv.Itoa(c.Initial)), putOpt{}); r.Err != "" {
				return nil, false, true
			}
		}
	case "float":
		if c.Initial != 0 {
			if r := prep.put(ctx, key, []byte(strconv.FormatFloat(float64(c.Initial), 'f', -1, 64)), putOpt{}); r.Err != "" {
				return nil, false, true
			}
		}
		scale = 4
	}
	if c.YieldUs > 0 {
		d := time.Duration(c.YieldUs) * time.Microsecond
		verifhook.Set("atomic.afterRead", func(args ...string) { time.Sleep(d) })
		defer verifhook.Set("atomic.afterRead", nil)
	}
	var mu sync.Mutex
	var hist []c07Event
	var wg sync.WaitGroup
	start := make(chan struct{})
	for ci, cc := range c.Callers {
		wg.Add(1)
		go func(ci int, cc c07Caller) {
			defer wg.Done()
			pc := &pathClient{cl: cl, dmap: name, path: cc.Path, pick: cc.Pick}
			<-start
			for i, d := range cc.Deltas {
				ev := c07Event{Caller: ci, Path: cc.Path, Delta: d}
				var r vRes
				switch c.Mode {
				case "int":
					if d >= 0 {
						r = pc.incr(ctx, key, d, false)
					} else {
						r = pc.incr(ctx, key, -d, true)
					}
					ev.Int = r.Int
				case "float":
					r = pc.incrByFloat(ctx, key, float64(d)*0.25)
					ev.F = r.F
					ev.Int = int64(r.F * 4) // every partial sum is a multiple of 0.25: exact
				default:
					ev.Val = fmt.Sprintf("w%d-%d", ci, i)
					r = pc.getput(ctx, key, []byte(ev.Val))
					ev.Old, ev.Found = string(r.Val), r.Found
				}
				ev.Err, ev.Inv, ev.Ret = r.Err, r.Inv, r.Ret
				mu.Lock()
				hist = append(hist, ev)
				mu.Unlock()
			}
		}(ci, cc)
	}
	close(start)
	wg.Wait()
	fail := func(class, format string, args ...interface{}) *vcommon.Violation {
		v := vcommon.NewViolation("C07", "atomic", class, c, format, args...)
		sort.Slice(hist, func(i, j int) bool { return hist[i].Inv < hist[j].Inv })
		if len(hist) > 400 {
			hist = hist[:400]
		}
		v.History = vcommon.MustJSON(hist)
		return v
	}
	// members used as entry points
	entry := map[string]bool{}
	for _, cc := range c.Callers {
		pc := &pathClient{cl: cl, dmap: name, path: cc.Path, pick: cc.Pick}
		switch pc.effectivePath(key) {
		case pOwnerEmb, pOwnerRaw, pCluster:
			entry[cl.ownerOf(name, key).name] = true
		default:
			entry[cl.nonOwner(name, key, cc.Pick).name] = true
		}
	}
	nontrivial = len(entry) >= 2
	for _, ev := range hist {
		if ev.Err != "" {
			if strings.HasPrefix(ev.Err, "other:") {
				return nil, nontrivial, true
			}
			return fail("unexpected-error", "operation through %s failed: %s", pathNames[ev.Path], ev.Err), nontrivial, false
		}
	}
	final := prep.get(ctx, key)
	if final.Err != "" {
		return fail("final-read", "final Get failed: %s", final.Err), nontrivial, false
	}
	if c.Mode == "getput" {
		written := map[string]int{}
		returned := map[string]int{}
		none := 0
		for _, ev := range hist {
			written[ev.Val]++
			if ev.Found {
				returned[ev.Old]++
			} else {
				none++
			}
		}
		returned[string(final.Val)]++ // the last written value is still stored
		if none != 1 {
			return fail("getput-chain", "%d GetPut calls returned no old value, want exactly 1 (the first)", none), nontrivial, false
		}
		for val, n := range returned {
			if n > 1 {
				return fail("getput-chain", "value %q was returned %d times (lost update: two calls replaced the same value)", val, n), nontrivial, false
			}
			if written[val] == 0 {
				return fail("getput-chain", "value %q was returned but never written", val), nontrivial, false
			}
		}
		for val := range written {
			if returned[val] == 0 {
				return fail("getput-chain", "written value %q was neither returned to anyone nor is it the final value", val), nontrivial, false
			}
		}
		return nil, nontrivial, false
	}
	var sum int64
	for _, ev := range hist {
		sum += int64(ev.Delta)
	}
	want := int64(c.Initial)*scale + sum
	var got int64
	if c.Mode == "int" {
		n, err := strconv.ParseInt(string(final.Val), 10, 64)
		if err != nil {
			return fail("final-read", "final value %q is not an integer", final.Val), nontrivial, false
		}
		got = n
	} else {
		f, err := strconv.ParseFloat(string(final.Val), 64)
		if err != nil {
			return fail("final-read", "final value %q is not a float", final.Val), nontrivial, false
		}
		got = int64(f * 4)
	}
	if got != want {
		return fail("lost-update", "%s: final value %d (in units of 1/%d), want initial %d + sum of %d acknowledged deltas = %d", c.Mode, got, scale, int64(c.Initial)*scale, len(hist), want), nontrivial, false
	}
	var ops []porcupine.Operation
	for _, ev := range hist {
		ops = append(ops, porcupine.Operation{ClientId: ev.Caller, Input: ev, Call: ev.Inv, Output: ev.Int, Return: ev.Ret})
	}
	model := c07CounterModel
	init0 := int64(c.Initial) * scale
	model.Init = func() interface{} { return init0 }
	switch porcupine.CheckOperationsTimeout(model, ops, 10*time.Second) {
	case porcupine.Unknown:
		return nil, nontrivial, true
	case porcupine.Illegal:
		return fail("not-linearizable", "the returned values of %d %s operations cannot be ordered so that each observed exactly the calls before it", len(hist), c.Mode), nontrivial, false
	}
	return nil, nontrivial, false
}

func TestVerifC07(t *testing.T) {
	p := vcommon.Env()
	t.Cleanup(shutdownPool)
	if p.Replay != "" {
		v, err := vcommon.LoadViolation(p.Replay)
		if err != nil {
			t.Fatal(err)
		}
		c := &c07Case{}
		if err := json.Unmarshal(v.Case, c); err != nil {
			t.Fatal(err)
		}
		for i := 0; i < 30; i++ {
			got, _, _ := runC07(c)
			if got != nil {
				path := vcommon.SaveViolation(got)
				fmt.Printf("VERIF-VIOLATION %s %s\n", path, got.Message)
				t.Fatalf("replay still fails: %s", got.Message)
			}
		}
		return
	}
	col := vcommon.NewCollector("C07", "atomic")
	t.Cleanup(col.Flush)
	rapid.Check(t, func(rt *rapid.T) {
		c := genC07(rt)
		v, nt, inc := runC07(c)
		if inc || (v != nil && vFlapsSinceMark() > 0) {
			col.Inconclusive()
			return
		}
		col.Record(vcommon.MustJSON(c), nt, "mode:"+c.Mode, fmt.Sprintf("members:%d", c.Opts.Members), fmt.Sprintf("callers:%d", len(c.Callers)))
		if v != nil {
			if vcommon.Known(v.Class) {
				col.ExcludedKnown()
				return
			}
			vcommon.SaveViolation(v)
			rt.Fatalf("%s", v.Message)
		}
	})
}
