package olric

// C18: returned values are private snapshots.

import (
	"bytes"
	"context"
	"encoding/json"
	"fmt"
	"strings"
	"testing"
	"time"

	"github.com/olric-data/olric/internal/cluster/partitions"
	"github.com/olric-data/olric/internal/zzverif/vcommon"
	"pgregory.net/rapid"
)

type c18Op struct {
	Op   string `json:"op"` // put putmut read mutate del churn compact destroy
	K    int    `json:"k,omitempty"`
	Len  int    `json:"len,omitempty"`
	Path int    `json:"path,omitempty"`
	How  string `json:"how,omitempty"` // byte string getput
	N    int    `json:"n,omitempty"`
	H    int    `json:"h,omitempty"` // handle index for mutate
}

type c18Case struct {
	Opts vOpts   `json:"opts"`
	Ops  []c18Op `json:"ops"`
}

func genC18(t *rapid.T) *c18Case {
	c := &c18Case{}
	c.Opts.Members = rapid.IntRange(1, 2).Draw(t, "members")
	c.Opts.Replicas = rapid.IntRange(1, c.Opts.Members).Draw(t, "replicas")
	c.Opts.Partitions = rapid.SampledFrom([]int{1, 3, 7}).Draw(t, "partitions")
	if c.Opts.Partitions < c.Opts.Members {
		c.Opts.Partitions = 3
	}
	c.Opts.TableSize = rapid.SampledFrom([]int{256, 512, 1024}).Draw(t, "tableSize")
	n := rapid.IntRange(4, 30).Draw(t, "nops")
	kinds := []string{"put", "put", "putmut", "read", "read", "read", "mutate", "mutate", "del", "churn", "churn", "compact", "destroy", "pipemut"}
	for i := 0; i < n; i++ {
		op := c18Op{Op: rapid.SampledFrom(kinds).Draw(t, "op")}
		if i == 0 {
			op.Op = "put"
		}
		op.K = rapid.IntRange(0, 2).Draw(t, "k")
		op.Len = rapid.SampledFrom([]int{1, 8, 8, 20, 60}).Draw(t, "len")
		op.Path = rapid.SampledFrom([]int{1, 1, 1, 2, 3}).Draw(t, "path")
		op.How = rapid.SampledFrom([]string{"byte", "byte", "string", "getput"}).Draw(t, "how")
		op.N = rapid.SampledFrom([]int{10, 40, 200}).Draw(t, "n")
		op.H = rapid.IntRange(0, 50).Draw(t, "h")
		c.Ops = append(c.Ops, op)
	}
	return c
}

type c18Handle struct {
	b       []byte // as returned
	s       string // as returned (String())
	isStr   bool
	private []byte
	step    int
	path    int
	how     string
	mutated bool
}

func runC18(c *c18Case) (v *vcommon.Violation, nontrivial, inconclusive bool) {
	cl, err := pooledCluster(c.Opts)
	if err != nil {
		return nil, false, true
	}
	ctx, cancel := context.WithTimeout(context.Background(), 60*time.Second)
	defer cancel()
	name := freshName("c18-")
	keys := []string{"ka", "kb", "kc"}
	model := map[string][]byte{}
	var handles []*c18Handle
	ownerReadSince := false
	for i, op := range c.Ops {
		key := keys[op.K]
		pc := &pathClient{cl: cl, dmap: name, path: op.Path, pick: i}
		bad := func(class, format string, args ...interface{}) *vcommon.Violation {
			cut := *c
			cut.Ops = c.Ops[:i+1]
			v := vcommon.NewViolation("C18", "snapshots", class, &cut, format, args...)
			v.Message = fmt.Sprintf("step %d %s: %s", i, vcommon.MustJSON(op), v.Message)
			return v
		}
		mkval := func() []byte {
			return bytes.Repeat([]byte{byte('A' + i%26)}, op.Len)
		}
		switch op.Op {
		case "put", "putmut":
			val := mkval()
			arg := append([]byte(nil), val...)
			if r := pc.put(ctx, key, arg, putOpt{}); r.Err != "" {
				return nil, nontrivial, true
			}
			if op.Op == "putmut" {
				// the caller reuses its buffer as soon as Put returned
				for j := range arg {
					arg[j] = '!'
				}
			}
			model[key] = val
			if ownerReadSince {
				nontrivial = true
			}
		case "read":
			dm, err := pc.dm(key)
			if err != nil {
				return nil, nontrivial, true
			}
			h := &c18Handle{step: i, path: op.Path, how: op.How}
			var gr *GetResponse
			if op.How == "getput" {
				nv := mkval()
				gr, err = dm.GetPut(ctx, key, append([]byte(nil), nv...))
				if err != nil {
					return nil, nontrivial, true
				}
				old, had := model[key]
				model[key] = nv
				if !had {
					continue
				}
				if gr == nil || gr.entry == nil {
					return bad("getput-old", "GetPut returned no old value, model holds %q", old), nontrivial, false
				}
				b, err := gr.Byte()
				if err != nil || !bytes.Equal(b, old) {
					return bad("getput-old", "GetPut returned %q, %v; model holds %q", b, err, old), nontrivial, false
				}
				h.b = b
			} else {
				want, had := model[key]
				gr, err = dm.Get(ctx, key)
				if !had {
					if errClass(err) != "notfound" {
						return bad("get", "Get of an absent key: %v", err), nontrivial, false
					}
					continue
				}
				if err != nil {
					return bad("get", "Get failed: %v (model %q)", err, want), nontrivial, false
				}
				if op.How == "string" {
					s, err := gr.String()
					if err != nil || s != string(want) {
						return bad("get", "Get().String() = %q, %v; model %q", s, err, want), nontrivial, false
					}
					h.s, h.isStr = s, true
				} else {
					b, err := gr.Byte()
					if err != nil || !bytes.Equal(b, want) {
						return bad("get", "Get().Byte() = %q, %v; model %q", b, err, want), nontrivial, false
					}
					h.b = b
				}
			}
			if h.isStr {
				h.private = []byte(strings.Clone(h.s))
			} else {
				h.private = append([]byte(nil), h.b...)
			}
			handles = append(handles, h)
			if pc.effectivePath(key) == pOwnerEmb {
				ownerReadSince = true
			}
		case "mutate":
			if len(handles) == 0 {
				continue
			}
			h := handles[op.H%len(handles)]
			if h.isStr || len(h.b) == 0 {
				continue
			}
			for j := range h.b {
				h.b[j] = '#'
			}
			copy(h.private, h.b) // the caller's own view of its buffer
			h.mutated = true
			nontrivial = true
		case "pipemut":
			// a queued pipeline Put / GetPut has returned: its buffer belongs to the caller again, also before Exec
			var dm DMap
			var err error
			if op.Path == 3 {
				cc, cerr := cl.clusterClient()
				if cerr != nil {
					return nil, nontrivial, true
				}
				dm, err = cc.NewDMap(name)
			} else {
				dm, err = cl.live()[i%len(cl.live())].emb.NewDMap(name)
			}
			if err != nil {
				return nil, nontrivial, true
			}
			pipe, err := dm.Pipeline()
			if err != nil {
				return nil, nontrivial, true
			}
			val := mkval()
			arg := append([]byte(nil), val...)
			var res func() error
			if op.How == "getput" {
				f, err := pipe.GetPut(ctx, key, arg)
				if err != nil {
					pipe.Close()
					return nil, nontrivial, true
				}
				res = func() error { _, err := f.Result(); return err }
			} else {
				f, err := pipe.Put(ctx, key, arg)
				if err != nil {
					pipe.Close()
					return nil, nontrivial, true
				}
				res = f.Result
			}
			for j := range arg {
				arg[j] = '!'
			}
			err = pipe.Exec(ctx)
			if err == nil {
				err = res()
			}
			pipe.Close()
			if err != nil && errClass(err) != "notfound" {
				return nil, nontrivial, true
			}
			model[key] = val
			nontrivial = true
		case "del":
			if r := pc.del(ctx, key); r.Err != "" {
				return nil, nontrivial, true
			}
			delete(model, key)
			if ownerReadSince {
				nontrivial = true
			}
		case "churn":
			for j := 0; j < op.N; j++ {
				ck := fmt.Sprintf("churn-%d", j%7)
				if r := pc.put(ctx, ck, bytes.Repeat([]byte{byte('a' + j%26)}, 10+j%50), putOpt{}); r.Err != "" {
					return nil, nontrivial, true
				}
			}
		case "compact":
			for _, m := range cl.live() {
				for p := uint64(0); p < uint64(c.Opts.Partitions); p++ {
					m.db.dmap.VerifCompact(name, p, partitions.PRIMARY, 500)
					m.db.dmap.VerifCompact(name, p, partitions.BACKUP, 500)
				}
			}
		case "destroy":
			dm, err := pc.dm(key)
			if err != nil {
				return nil, nontrivial, true
			}
			if err := dm.Destroy(ctx); err != nil {
				return nil, nontrivial, true
			}
			model = map[string][]byte{}
		}
		// every value handed out earlier is unchanged
		for hi, h := range handles {
			cur := h.b
			if h.isStr {
				cur = []byte(h.s)
			}
			if !bytes.Equal(cur, h.private) {
				return bad("returned-value-changed", "the value returned at step %d through %s (%s) was %q and now reads %q (handle %d)", h.step, pathNames[h.path], h.how, h.private, cur, hi), nontrivial, false
			}
		}
		// the stored values are what the model says, from the owner and from another path
		for _, k := range keys {
			for _, path := range []int{pOwnerEmb, pCluster} {
				g := (&pathClient{cl: cl, dmap: name, path: path}).get(ctx, k)
				want, had := model[k]
				if had && (g.Err != "" || !bytes.Equal(g.Val, want)) {
					return bad("stored-value-changed", "key %q reads %s through %s, model holds %q", k, g.String(), pathNames[path], want), nontrivial, false
				}
				if !had && g.Err != "notfound" {
					return bad("stored-value-changed", "key %q reads %s through %s, model says absent", k, g.String(), pathNames[path]), nontrivial, false
				}
			}
		}
	}
	return nil, nontrivial, false
}

func TestVerifC18(t *testing.T) {
	p := vcommon.Env()
	t.Cleanup(shutdownPool)
	if p.Replay != "" {
		v, err := vcommon.LoadViolation(p.Replay)
		if err != nil {
			t.Fatal(err)
		}
		c := &c18Case{}
		if err := json.Unmarshal(v.Case, c); err != nil {
			t.Fatal(err)
		}
		for i := 0; i < 3; i++ {
			got, _, _ := runC18(c)
			if got != nil {
				path := vcommon.SaveViolation(got)
				fmt.Printf("VERIF-VIOLATION %s %s\n", path, got.Message)
				t.Fatalf("replay still fails: %s", got.Message)
			}
		}
		return
	}
	col := vcommon.NewCollector("C18", "snapshots")
	t.Cleanup(col.Flush)
	rapid.Check(t, func(rt *rapid.T) {
		c := genC18(rt)
		v, nt, inc := runC18(c)
		if inc || (v != nil && transportNoise(v.Message)) {
			col.Inconclusive()
			return
		}
		col.Record(vcommon.MustJSON(c), nt, fmt.Sprintf("members:%d", c.Opts.Members), fmt.Sprintf("table:%d", c.Opts.TableSize))
		if v != nil {
			if vcommon.Known(v.Class) {
				col.ExcludedKnown()
				return
			}
			vcommon.SaveViolation(v)
			rt.Fatalf("%s", v.Message)
		}
	})
}
