package olric

// C13: all members agree on a valid, balanced routing table.

import (
	"context"
	"encoding/json"
	"fmt"
	"io"
	"log"
	"math"
	"net"
	"strconv"
	"strings"
	"testing"
	"time"

	"github.com/olric-data/olric/internal/cluster/partitions"
	"github.com/olric-data/olric/internal/discovery"
	"github.com/olric-data/olric/internal/zzverif/vcommon"
	"github.com/redis/go-redis/v9"
	"pgregory.net/rapid"
)

type c13Event struct {
	Ev   string `json:"ev"` // join leave kill coordleave rejoin
	Pick int    `json:"pick"`
}

type c13Case struct {
	Start      int        `json:"start"`
	Replicas   int        `json:"replicas"`
	Partitions int        `json:"partitions"`
	Events     []c13Event `json:"events"`
}

func genC13(t *rapid.T) *c13Case {
	c := &c13Case{}
	c.Start = rapid.IntRange(1, 4).Draw(t, "start")
	c.Replicas = rapid.IntRange(1, 3).Draw(t, "replicas")
	c.Partitions = rapid.SampledFrom([]int{7, 13, 31}).Draw(t, "partitions")
	n := rapid.IntRange(1, 6).Draw(t, "events")
	for i := 0; i < n; i++ {
		c.Events = append(c.Events, c13Event{Ev: rapid.SampledFrom([]string{"join", "join", "leave", "kill", "coordleave", "rejoin", "restart"}).Draw(t, "ev"), Pick: rapid.IntRange(0, 5).Draw(t, "pick")})
	}
	return c
}

// vStartMemberAt starts a member on a given RESP port (re-join under the same address).
func vStartMemberAt(o vOpts, peers []string, port, gossipPort int) (*vMember, error) {
	c := vConfig(o)
	c.MemberlistConfig.Label = vLabelFor(peers)
	c.BindPort = port
	if gossipPort != 0 {
		// a restart of the same installation: same gossip address as well
		c.MemberlistConfig.BindPort = gossipPort
		c.MemberlistConfig.AdvertisePort = gossipPort
	}
	c.Peers = append([]string(nil), peers...)
	if err := c.Sanitize(); err != nil {
		return nil, err
	}
	if err := c.Validate(); err != nil {
		return nil, err
	}
	db, err := New(c)
	if err != nil {
		return nil, err
	}
	go func() { _ = db.Start() }()
	m := &vMember{db: db, cfg: c, alive: true}
	m.name = net.JoinHostPort(c.BindAddr, strconv.Itoa(c.BindPort))
	deadline := time.Now().Add(8 * time.Second)
	for !m.ready() {
		if time.Now().After(deadline) {
			ctx, cancel := context.WithTimeout(context.Background(), 2*time.Second)
			_ = db.Shutdown(ctx)
			cancel()
			return nil, fmt.Errorf("%w: re-joining member did not start", errInconclusive)
		}
		time.Sleep(2 * time.Millisecond)
	}
	vMarkAlive(m.name, true)
	m.emb = db.NewEmbeddedClient()
	m.rc = redis.NewClient(&redis.Options{Addr: m.name, MaxRetries: -1, DialTimeout: 2 * time.Second, ReadTimeout: 10 * time.Second, PoolSize: 64})
	return m, nil
}

// kill stops a member abruptly: unreachable at once, no leave broadcast.
func (cl *vCluster) kill(m *vMember) {
	if !m.alive {
		return
	}
	m.alive = false
	vMarkAlive(m.name, false)
	m.killed = true
	m.db.rt.Discovery().VerifKill()
	_ = m.db.server.VerifCloseListener()
	go func() {
		ctx, cancel := context.WithTimeout(context.Background(), 5*time.Second)
		_ = m.db.Shutdown(ctx)
		cancel()
	}()
	_ = m.rc.Close()
	if cl.cc != nil {
		_ = cl.cc.Close(context.Background())
		cl.cc = nil
	}
}

// waitSettled: every survivor counts exactly the live members and all of them hold the same routing table.
func (cl *vCluster) waitSettled(timeout time.Duration) error {
	deadline := time.Now().Add(timeout)
	ok := 0
	for time.Now().Before(deadline) {
		live := cl.live()
		good := true
		var ref string
		for i, m := range live {
			if !m.db.rt.IsBootstrapped() || int(m.db.rt.NumMembers()) != len(live) || m.db.rt.Discovery().NumMembers() != len(live) || rtMembers(m.db) != len(live) {
				good = false
				break
			}
			s := routingSnapshot(m.db)
			if i == 0 {
				ref = s
			} else if s != ref {
				good = false
				break
			}
		}
		if good {
			ok++
			if ok >= 4 {
				return nil
			}
		} else {
			ok = 0
		}
		time.Sleep(10 * time.Millisecond)
	}
	return fmt.Errorf("%w: membership did not settle within %v", errInconclusive, timeout)
}

func (cl *vCluster) coordinator() *vMember {
	var best *vMember
	for _, m := range cl.live() {
		if best == nil || m.db.rt.This().Birthdate < best.db.rt.This().Birthdate {
			best = m
		}
	}
	return best
}

func checkRouting(cl *vCluster, c *c13Case, departed map[uint64]string) (string, string) {
	live := cl.live()
	names := map[string]bool{}
	for _, m := range live {
		names[m.name] = true
	}
	n := len(live)
	wantBackups := c.Replicas - 1
	if n-1 < wantBackups {
		wantBackups = n - 1
	}
	ref := live[0]
	limit := int(math.Ceil(float64(c.Partitions) / float64(n) * 1.25))
	primaries := map[string]int{}
	for p := uint64(0); p < uint64(c.Partitions); p++ {
		owners := ref.db.primary.PartitionByID(p).Owners()
		if len(owners) == 0 {
			return "no-owner", fmt.Sprintf("partition %d has no primary owner", p)
		}
		last := owners[len(owners)-1]
		if !names[last.Name] {
			return "dead-primary", fmt.Sprintf("partition %d: primary owner %s is not a live member", p, last.Name)
		}
		primaries[last.Name]++
		for _, o := range owners {
			if who, gone := departed[o.ID]; gone {
				return "departed-listed", fmt.Sprintf("partition %d lists departed member %s (id %d) as an owner", p, who, o.ID)
			}
			if !names[o.Name] {
				return "dead-owner-listed", fmt.Sprintf("partition %d lists %s, which is not a live member, among its owners %v", p, o.Name, memberNames(owners))
			}
		}
		bk := ref.db.backup.PartitionByID(p).Owners()
		for _, o := range bk {
			if who, gone := departed[o.ID]; gone {
				return "departed-listed", fmt.Sprintf("partition %d lists departed member %s (id %d) as a backup owner", p, who, o.ID)
			}
			if !names[o.Name] {
				return "dead-backup-listed", fmt.Sprintf("partition %d lists %s, which is not a live member, among its backup owners %v", p, o.Name, memberNames(bk))
			}
		}
		if len(bk) < wantBackups {
			return "too-few-backups", fmt.Sprintf("partition %d has %d backup owners %v, want %d (replicas %d, members %d)", p, len(bk), memberNames(bk), wantBackups, c.Replicas, n)
		}
		cur := bk[len(bk)-wantBackups:]
		seen := map[string]bool{}
		for _, o := range cur {
			if o.Name == last.Name {
				return "primary-is-backup", fmt.Sprintf("partition %d: %s is primary owner and current backup owner", p, o.Name)
			}
			if seen[o.Name] {
				return "duplicate-backup", fmt.Sprintf("partition %d: %s is listed twice among the current backup owners %v", p, o.Name, memberNames(bk))
			}
			seen[o.Name] = true
		}
	}
	for name, k := range primaries {
		if k > limit {
			return "overloaded", fmt.Sprintf("%s owns %d of %d partitions with %d members; the load factor 1.25 allows %d", name, k, c.Partitions, n, limit)
		}
	}
	return "", ""
}

func runC13(c *c13Case) (v *vcommon.Violation, nontrivial, inconclusive bool) {
	opts := vOpts{Members: c.Start, Replicas: c.Replicas, Partitions: c.Partitions, FastDetect: true, TableSize: 2048}
	cl, err := vNewCluster(opts)
	if err != nil {
		return nil, false, true
	}
	defer cl.shutdown()
	ctx, cancel := context.WithTimeout(context.Background(), 120*time.Second)
	defer cancel()
	name := freshName("c13-")
	var log0 []string
	step := -1
	bad := func(class, format string, args ...interface{}) *vcommon.Violation {
		cut := *c
		if step >= 0 {
			cut.Events = c.Events[:step+1]
		}
		v := vcommon.NewViolation("C13", "routing", class, &cut, format, args...)
		v.Message = fmt.Sprintf("after event %d: %s", step, v.Message)
		v.History = vcommon.MustJSON(log0)
		return v
	}
	load := func() {
		live := cl.live()
		for i := 0; i < 12; i++ {
			dm, err := live[i%len(live)].emb.NewDMap(name)
			if err == nil {
				_ = dm.Put(ctx, fmt.Sprintf("load-%d", i), []byte("0123456789012345678901234567890123456789"))
			}
		}
	}
	load()
	departed := map[uint64]string{}
	var stopped []*vMember
	leaves, coordChange := 0, false
	for i, ev := range c.Events {
		step = i
		live := cl.live()
		coord := cl.coordinator()
		kind := ev.Ev
		switch kind {
		case "join":
			if len(live) >= 6 {
				continue
			}
			if _, err := cl.addMember(); err != nil {
				return nil, nontrivial, true
			}
		case "leave", "kill", "coordleave":
			if len(live) <= 1 {
				continue
			}
			victim := live[ev.Pick%len(live)]
			if kind == "coordleave" {
				victim = coord
			}
			if victim == coord {
				coordChange = true
			}
			departed[victim.db.rt.This().ID] = victim.name
			if kind == "kill" {
				cl.kill(victim)
			} else {
				cl.stop(victim)
			}
			stopped = append(stopped, victim)
			leaves++
		case "rejoin":
			if len(stopped) == 0 || len(live) >= 6 {
				continue
			}
			old := stopped[ev.Pick%len(stopped)]
			port := old.cfg.BindPort
			// the address must be free again
			time.Sleep(50 * time.Millisecond)
			m, err := vStartMemberAt(opts, cl.memberlistAddrs(), port, 0)
			if err != nil {
				return nil, nontrivial, true
			}
			cl.members = append(cl.members, m)
			nontrivial = true
		case "restart":
			// a crash and an immediate restart under the same addresses, before the failure detector has
			// declared the member dead: the others see the same name come back with a new identity
			if len(live) <= 1 {
				continue
			}
			victim := live[ev.Pick%len(live)]
			if victim == coord {
				coordChange = true
			}
			_, gp, err := net.SplitHostPort(victim.db.rt.Discovery().LocalNode().Address())
			if err != nil {
				return nil, nontrivial, true
			}
			gossipPort, _ := strconv.Atoi(gp)
			departed[victim.db.rt.This().ID] = victim.name
			cl.kill(victim)
			m, err := vStartMemberAt(opts, cl.memberlistAddrs(), victim.cfg.BindPort, gossipPort)
			if err != nil {
				return nil, nontrivial, true
			}
			cl.members = append(cl.members, m)
			leaves++
			nontrivial = true
		}
		log0 = append(log0, fmt.Sprintf("%d %s -> %d live", i, kind, len(cl.live())))
		if err := cl.waitSettled(25 * time.Second); err != nil {
			return nil, nontrivial, true
		}
		if leaves >= 1 && i >= 1 || coordChange {
			nontrivial = true
		}
		// validity of the table every member holds (they are identical once settled); emptied previous
		// owners are pruned by the next routing pushes, so an invalid table gets a grace period to converge
		var class, msg string
		deadline := time.Now().Add(8 * time.Second)
		for {
			class, msg = checkRouting(cl, c, departed)
			if class == "" && cl.stableNow() {
				break
			}
			if time.Now().After(deadline) {
				break
			}
			time.Sleep(50 * time.Millisecond)
			if err := cl.waitSettled(10 * time.Second); err != nil {
				return nil, nontrivial, true
			}
		}
		if class != "" {
			return bad(class, "%s", msg), nontrivial, false
		}
		// The remaining comparisons read several members (and a client) one after the other while the balancer
		// may still be moving data and the coordinator keeps pruning emptied owners with every push. They are
		// made on a quiet snapshot only (no routing change on any member while the attempt ran), and a finding
		// must persist over several attempts that are more than two routing pushes apart.
		var vclass, vmsg string
		confirmed := 0
		for attempt := 0; attempt < 12 && confirmed < 3; attempt++ {
			if attempt > 0 {
				time.Sleep(500 * time.Millisecond)
			}
			before := allSnapshots(cl)
			cls, msg := viewCheck(ctx, cl, c, name, i)
			if before == "" || before != allSnapshots(cl) {
				continue // not quiet: does not count
			}
			if cls == "" {
				vclass = ""
				break
			}
			if cls == vclass || vclass == "" {
				confirmed++
			} else {
				confirmed = 1
			}
			vclass, vmsg = cls, msg
		}
		if vclass != "" && confirmed >= 3 {
			return bad(vclass, "%s", vmsg), nontrivial, false
		}
		load()
	}
	return nil, nontrivial, false
}

// allSnapshots renders the routing view of every live member; "" if they differ.
func allSnapshots(cl *vCluster) string {
	var ref string
	for i, m := range cl.live() {
		s := routingSnapshot(m.db)
		if i == 0 {
			ref = s
		} else if s != ref {
			return ""
		}
	}
	return ref
}

// viewCheck compares what clients obtain from every member with the members' own view.
func viewCheck(ctx context.Context, cl *vCluster, c *c13Case, name string, step int) (string, string) {
	live := cl.live()
	// previous owners still listed must hold data
	for p := uint64(0); p < uint64(c.Partitions); p++ {
		owners := live[0].db.primary.PartitionByID(p).Owners()
		for _, o := range owners[:len(owners)-1] {
			m := cl.byName(o.Name)
			if m == nil {
				continue
			}
			if m.db.primary.PartitionByID(p).Length() == 0 {
				return "empty-previous-owner", fmt.Sprintf("partition %d still lists %s as a previous owner although it holds no data for it (owners %v)", p, o.Name, memberNames(owners))
			}
		}
	}
	coord := cl.coordinator()
	for _, m := range live {
		cc, err := NewClusterClient([]string{m.name}, WithLogger(log.New(io.Discard, "", 0)))
		if err != nil {
			return "", ""
		}
		rt, err := cc.RoutingTable(ctx)
		if err != nil {
			_ = cc.Close(ctx)
			return "", ""
		}
		for p := uint64(0); p < uint64(c.Partitions); p++ {
			wantP := strings.Join(namesInOrder(m.db.primary.PartitionByID(p).Owners()), ",")
			wantB := strings.Join(namesInOrder(m.db.backup.PartitionByID(p).Owners()), ",")
			r, ok := rt[p]
			if !ok || strings.Join(r.PrimaryOwners, ",") != wantP || strings.Join(r.ReplicaOwners, ",") != wantB {
				_ = cc.Close(ctx)
				return "client-table-differs", fmt.Sprintf("CLUSTER.ROUTINGTABLE from %s reports owners %v / backups %v for partition %d, the member holds %s / %s", m.name, r.PrimaryOwners, r.ReplicaOwners, p, wantP, wantB)
			}
		}
		members, err := cc.Members(ctx)
		if err != nil {
			_ = cc.Close(ctx)
			return "", ""
		}
		if len(members) != len(live) {
			_ = cc.Close(ctx)
			return "members-list", fmt.Sprintf("CLUSTER.MEMBERS from %s lists %d members, %d are alive", m.name, len(members), len(live))
		}
		for _, mm := range members {
			if mm.Coordinator != (mm.Name == coord.name) {
				_ = cc.Close(ctx)
				return "coordinator", fmt.Sprintf("CLUSTER.MEMBERS from %s marks %s coordinator=%v; the oldest live member is %s", m.name, mm.Name, mm.Coordinator, coord.name)
			}
		}
		// every key maps to the same owner from this member and from a client of this member
		for k := 0; k < 50; k++ {
			key := fmt.Sprintf("key-%d-%d", step, k)
			hkey := partitions.HKey(name, key)
			memberOwner := m.db.primary.PartitionByHKey(hkey).Owner().Name
			refOwner := live[0].db.primary.PartitionByHKey(hkey).Owner().Name
			po := rt[hkey%uint64(c.Partitions)].PrimaryOwners
			if memberOwner != refOwner || len(po) == 0 || po[len(po)-1] != memberOwner {
				_ = cc.Close(ctx)
				return "key-owner-differs", fmt.Sprintf("key %q: owner %s on %s, %s on %s, %v for a client", key, memberOwner, m.name, refOwner, live[0].name, po)
			}
		}
		_ = cc.Close(ctx)
	}
	return "", ""
}

func namesInOrder(ms []discovery.Member) []string {
	var out []string
	for _, m := range ms {
		out = append(out, m.Name)
	}
	return out
}

func TestVerifC13(t *testing.T) {
	p := vcommon.Env()
	if p.Replay != "" {
		v, err := vcommon.LoadViolation(p.Replay)
		if err != nil {
			t.Fatal(err)
		}
		c := &c13Case{}
		if err := json.Unmarshal(v.Case, c); err != nil {
			t.Fatal(err)
		}
		for i := 0; i < 3; i++ {
			got, _, inc := runC13(c)
			if inc {
				continue
			}
			if got != nil {
				path := vcommon.SaveViolation(got)
				fmt.Printf("VERIF-VIOLATION %s %s\n", path, got.Message)
				t.Fatalf("replay still fails: %s", got.Message)
			}
		}
		return
	}
	col := vcommon.NewCollector("C13", "routing")
	t.Cleanup(col.Flush)
	rapid.Check(t, func(rt *rapid.T) {
		c := genC13(rt)
		v, nt, inc := runC13(c)
		if inc || (v != nil && vFlapsSinceMark() > 0) {
			col.Inconclusive()
			return
		}
		col.Record(vcommon.MustJSON(c), nt, fmt.Sprintf("replicas:%d", c.Replicas), fmt.Sprintf("events:%d", len(c.Events)))
		if v != nil {
			if vcommon.Known(v.Class) {
				col.ExcludedKnown()
				return
			}
			vcommon.SaveViolation(v)
			rt.Fatalf("%s", v.Message)
		}
	})
}
