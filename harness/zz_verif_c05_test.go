package olric

// C05: read, write and member-count quorums are enforced exactly.

import (
	"context"
	"encoding/json"
	"fmt"
	"sort"
	"strings"
	"testing"
	"time"

	"github.com/olric-data/olric/internal/cluster/partitions"
	"github.com/olric-data/olric/internal/zzverif/vcommon"
	"pgregory.net/rapid"
)

type c05Case struct {
	Kind   string `json:"kind"` // rw | mcq
	R      int    `json:"r"`
	W      int    `json:"w"`
	RQ     int    `json:"rq"`
	N      int    `json:"n"`
	Unr    int    `json:"unreachable_mask"` // bit i: the i-th backup owner of the key is unreachable
	Key    string `json:"key"`
	Path   int    `json:"path"`
	MCQ    int    `json:"mcq,omitempty"`
	ReadRp bool   `json:"read_repair,omitempty"`
	// OwnerGone: the primary owner's own copy is missing (as after a failover: the new owner starts empty,
	// the backup owners hold the entry); only the read quorum is examined then
	OwnerGone bool `json:"owner_copy_missing,omitempty"`
}

// c05Matrix enumerates every (R, W, RQ, N, subset) combination.
func c05Matrix() []c05Case {
	var out []c05Case
	for r := 1; r <= 3; r++ {
		for w := 1; w <= r; w++ {
			for rq := 1; rq <= r; rq++ {
				for _, n := range []int{r, r + 1} {
					nb := r - 1
					for mask := 0; mask < 1<<nb; mask++ {
						out = append(out, c05Case{Kind: "rw", R: r, W: w, RQ: rq, N: n, Unr: mask})
						if w == 1 {
							// the read side again with the owner's own copy missing (W does not matter for it)
							out = append(out, c05Case{Kind: "rw", R: r, W: w, RQ: rq, N: n, Unr: mask, OwnerGone: true})
						}
					}
				}
			}
		}
	}
	return out
}

func popcount(x int) int {
	n := 0
	for ; x > 0; x >>= 1 {
		n += x & 1
	}
	return n
}

func runC05RW(c *c05Case) (v *vcommon.Violation, nontrivial, inconclusive bool) {
	opts := vOpts{Members: c.N, Replicas: c.R, WQ: c.W, RQ: c.RQ, Partitions: 7, ReadRepair: c.ReadRp}
	cl, err := vNewCluster(opts)
	if err != nil {
		return nil, false, true
	}
	defer cl.shutdown()
	ctx, cancel := context.WithTimeout(context.Background(), 60*time.Second)
	defer cancel()
	name := freshName("c05-")
	bad := func(class, format string, args ...interface{}) *vcommon.Violation {
		return vcommon.NewViolation("C05", "rw", class, c, format, args...)
	}
	key := c.Key
	owner := cl.ownerOf(name, key)
	backups := cl.backupsOf(name, key)
	if len(backups) != c.R-1 {
		return nil, false, true
	}
	// healthy: the key is stored on all R copies
	if r := (&pathClient{cl: cl, dmap: name, path: pOwnerEmb}).put(ctx, key, []byte("old"), putOpt{}); r.Err != "" {
		return bad("healthy-put", "Put in the healthy cluster failed: %s", r.Err), false, false
	}
	// a key that is never written, in the same partition (same owner and backups)
	absent := key + "-never-written"
	for i := 0; partitions.HKey(name, absent)%7 != partitions.HKey(name, key)%7; i++ {
		absent = fmt.Sprintf("%s-never-written-%d", key, i)
	}
	var unreachable []*vMember
	for i, b := range backups {
		if c.Unr&(1<<i) != 0 {
			unreachable = append(unreachable, b)
		}
	}
	for _, b := range unreachable {
		_ = b.db.server.VerifCloseListener()
	}
	isUnr := func(m *vMember) bool {
		for _, u := range unreachable {
			if u == m {
				return true
			}
		}
		return false
	}
	reachable := c.R - len(unreachable)
	if c.OwnerGone {
		owner.db.dmap.VerifDeleteLocal(name, key, partitions.PRIMARY)
		reachable-- // the owner answers, but it has no copy to contribute
	}
	if reachable == c.W-1 || reachable == c.W || reachable == c.RQ-1 || reachable == c.RQ {
		nontrivial = true
	}
	// an entry member that can be reached and is not the owner (if there is one)
	var other *vMember
	for _, m := range cl.live() {
		if m != owner && !isUnr(m) {
			other = m
			break
		}
	}
	exec := func(op string, k string) vRes {
		pc := &pathClient{cl: cl, dmap: name, path: pOwnerEmb}
		dm, err := owner.emb.NewDMap(name)
		switch c.Path {
		case pOtherEmb:
			if other != nil {
				dm, err = other.emb.NewDMap(name)
			}
		case pOwnerRaw:
			if op == "put" {
				return vRes{Err: errClass(owner.rc.Do(ctx, "DM.PUT", name, k, "new").Err())}
			}
			b, e := owner.rc.Do(ctx, "DM.GET", name, k).Text()
			if e != nil {
				return vRes{Err: errClass(e)}
			}
			return vRes{Found: true, Val: []byte(b)}
		case pOtherRaw:
			if other != nil {
				if op == "put" {
					return vRes{Err: errClass(other.rc.Do(ctx, "DM.PUT", name, k, "new").Err())}
				}
				b, e := other.rc.Do(ctx, "DM.GET", name, k).Text()
				if e != nil {
					return vRes{Err: errClass(e)}
				}
				return vRes{Found: true, Val: []byte(b)}
			}
		}
		_ = pc
		if err != nil {
			return vRes{Err: errClass(err)}
		}
		if op == "put" {
			return vRes{Err: errClass(dm.Put(ctx, k, []byte("new")))}
		}
		return fromGetResponse(dm.Get(ctx, k))
	}
	if c.OwnerGone {
		// read quorum only: the copies are what the failover left behind
		desc := fmt.Sprintf("R=%d RQ=%d N=%d, the owner's own copy is missing, %d of %d backup owners unreachable (%d reachable copies), through %s", c.R, c.RQ, c.N, len(unreachable), len(backups), reachable, pathNames[c.Path])
		gr := exec("get", key)
		switch {
		case reachable >= c.RQ && reachable > 0:
			if gr.Err != "" || string(gr.Val) != "old" {
				return bad("get-fails-although-quorum-met", "%s: Get returned %s although %d >= ReadQuorum copies are reachable", desc, gr.String(), reachable), nontrivial, false
			}
		case reachable == 0:
			if gr.Err != "notfound" && gr.Err != "readquorum" {
				return bad("get-without-copies", "%s: Get returned %s although no copy is reachable", desc, gr.String()), nontrivial, false
			}
		default:
			if gr.Err != "readquorum" {
				return bad("read-below-quorum", "%s: Get returned %s although only %d < ReadQuorum copies were obtained, want the read-quorum error", desc, gr.String(), reachable), nontrivial, false
			}
		}
		return nil, nontrivial, false
	}
	// write quorum
	pr := exec("put", key)
	copies := 0
	for _, m := range append([]*vMember{owner}, backups...) {
		kind := partitions.BACKUP
		if m == owner {
			kind = partitions.PRIMARY
		}
		if rc := decodeCopy(m.db.dmap.VerifRaw(name, key, kind)); rc.present && string(rc.value) == "new" {
			copies++
		}
	}
	desc := fmt.Sprintf("R=%d W=%d RQ=%d N=%d, %d of %d backup owners unreachable (%d reachable copies), through %s", c.R, c.W, c.RQ, c.N, len(unreachable), len(backups), reachable, pathNames[c.Path])
	if reachable >= c.W {
		if pr.Err != "" {
			return bad("put-fails-although-quorum-met", "%s: Put failed with %q although %d >= WriteQuorum copies can be stored (%d were stored)", desc, pr.Err, reachable, copies), nontrivial, false
		}
		if copies < c.W {
			return bad("acknowledged-below-quorum", "%s: Put was acknowledged but only %d copies hold the value", desc, copies), nontrivial, false
		}
	} else {
		if pr.Err == "" {
			return bad("acknowledged-below-quorum", "%s: Put was acknowledged although only %d < WriteQuorum copies can be stored", desc, reachable), nontrivial, false
		}
		if pr.Err != "writequorum" {
			return bad("wrong-write-error", "%s: Put failed with %q, want the write-quorum error", desc, pr.Err), nontrivial, false
		}
	}
	// read quorum
	gr := exec("get", key)
	if reachable >= c.RQ {
		if gr.Err != "" {
			return bad("get-fails-although-quorum-met", "%s: Get failed with %q although %d >= ReadQuorum copies are reachable", desc, gr.Err, reachable), nontrivial, false
		}
		if pr.Err == "" && string(gr.Val) != "new" {
			return bad("get-stale", "%s: Get returned %q after the acknowledged Put of \"new\"", desc, gr.Val), nontrivial, false
		}
		if string(gr.Val) != "new" && string(gr.Val) != "old" {
			return bad("get-value", "%s: Get returned %q", desc, gr.Val), nontrivial, false
		}
	} else {
		if gr.Err != "readquorum" {
			return bad("read-below-quorum", "%s: Get returned %s although only %d < ReadQuorum copies are reachable, want the read-quorum error", desc, gr.String(), reachable), nontrivial, false
		}
	}
	ga := exec("get", absent)
	if ga.Err != "notfound" && ga.Err != "readquorum" {
		return bad("get-absent", "%s: Get of a key that was never written returned %s", desc, ga.String()), nontrivial, false
	}
	return nil, nontrivial, false
}

// runC05MCQ: members below the member-count quorum refuse everything and apply nothing.
func runC05MCQ(c *c05Case) (v *vcommon.Violation, nontrivial, inconclusive bool) {
	q := c.MCQ
	opts := vOpts{Members: q + 1, Replicas: 1, Partitions: 7, MCQ: q}
	cl := &vCluster{opts: opts}
	defer cl.shutdown()
	bad := func(class, format string, args ...interface{}) *vcommon.Violation {
		return vcommon.NewViolation("C05", "mcq", class, c, format, args...)
	}
	first, err := vStartMemberAsync(opts, nil)
	if err != nil {
		return nil, false, true
	}
	cl.members = append(cl.members, first)
	addr, ok := first.memberlistUp(5 * time.Second)
	if !ok {
		return nil, false, true
	}
	for i := 1; i < q+1; i++ {
		m, err := vStartMemberAsync(opts, []string{addr})
		if err != nil {
			return nil, false, true
		}
		cl.members = append(cl.members, m)
	}
	deadline := time.Now().Add(20 * time.Second)
	for {
		all := true
		for _, m := range cl.members {
			if !m.ready() {
				all = false
			}
		}
		if all {
			break
		}
		if time.Now().After(deadline) {
			return nil, false, true
		}
		time.Sleep(5 * time.Millisecond)
	}
	if err := cl.waitStable(15 * time.Second); err != nil {
		return nil, false, true
	}
	ctx, cancel := context.WithTimeout(context.Background(), 60*time.Second)
	defer cancel()
	name := freshName("c05q-")
	write := func(m *vMember, k, val string) string {
		dm, err := m.emb.NewDMap(name)
		if err != nil {
			return errClass(err)
		}
		return errClass(dm.Put(ctx, k, []byte(val)))
	}
	for i := 0; i < 10; i++ {
		if e := write(cl.members[i%len(cl.members)], fmt.Sprintf("k%d", i), "v"); e != "" {
			return bad("healthy-put", "Put with %d members (quorum %d) failed: %s", q+1, q, e), false, false
		}
	}
	// exactly at the quorum: still served
	cl.stop(cl.members[len(cl.members)-1])
	if err := cl.waitStable(15 * time.Second); err != nil {
		return nil, false, true
	}
	nontrivial = true
	for _, m := range cl.live() {
		if e := write(m, "at-quorum-"+m.name, "v"); e != "" {
			return bad("refuses-at-quorum", "member %s sees %d members, the quorum is %d, but Put failed: %s", m.name, len(cl.live()), q, e), nontrivial, false
		}
		if err := m.rc.Ping(ctx).Err(); err != nil {
			return bad("refuses-at-quorum", "member %s sees %d members, the quorum is %d, but PING failed: %v", m.name, len(cl.live()), q, err), nontrivial, false
		}
	}
	if q < 2 {
		return nil, nontrivial, false
	}
	// below the quorum
	cl.stop(cl.live()[len(cl.live())-1])
	survivors := cl.live()
	dl := time.Now().Add(10 * time.Second)
	for _, m := range survivors {
		for int(m.db.rt.NumMembers()) != len(survivors) {
			if time.Now().After(dl) {
				return nil, nontrivial, true
			}
			time.Sleep(2 * time.Millisecond)
		}
	}
	snapshot := func() string {
		var parts []string
		for _, m := range survivors {
			for p := uint64(0); p < uint64(opts.Partitions); p++ {
				keys := m.db.dmap.VerifKeys(name, p, partitions.PRIMARY)
				sort.Strings(keys)
				parts = append(parts, m.name+":"+fmt.Sprint(p)+":"+strings.Join(keys, ","))
			}
		}
		return strings.Join(parts, ";")
	}
	before := snapshot()
	rawEntry, move, _, _ := c16Payloads(survivors[0])
	cmds := c16ValidCommands(rawEntry, move, "x", "1")
	cmds = append(cmds, []string{"subscribe", "ch"}, []string{"psubscribe", "p*"})
	for _, m := range survivors {
		for _, args := range cmds {
			if args[0] == "internal.node.updaterouting" {
				continue // the documented precondition for becoming operable again
			}
			iargs := make([]interface{}, len(args))
			for i, a := range args {
				iargs[i] = a
			}
			err := m.rc.Do(ctx, iargs...).Err()
			if err == nil || errClass(err) != "clusterquorum" {
				return bad("served-below-quorum:"+args[0], "member %s sees %d members, the quorum is %d: %q was answered with %v, want the cluster-quorum error", m.name, len(survivors), q, args[0], err), nontrivial, false
			}
		}
		if _, err := m.emb.NewDMap(freshName("c05n-")); errClass(err) != "clusterquorum" {
			return bad("newdmap-below-quorum", "member %s below the quorum: NewDMap returned %v, want ErrClusterQuorum", m.name, err), nontrivial, false
		}
		// "every attempt to open a DMap": also one this member has opened and served before
		if _, err := m.emb.NewDMap(name); errClass(err) != "clusterquorum" {
			return bad("reopen-below-quorum", "member %s below the quorum: NewDMap of the DMap it opened earlier returned %v, want ErrClusterQuorum", m.name, err), nontrivial, false
		}
	}
	if after := snapshot(); after != before {
		return bad("applied-below-quorum", "the stored keys changed while the members were below the quorum:\nbefore %s\nafter  %s", before, after), nontrivial, false
	}
	return nil, nontrivial, false
}

func runC05(c *c05Case) (*vcommon.Violation, bool, bool) {
	if c.Kind == "mcq" {
		return runC05MCQ(c)
	}
	return runC05RW(c)
}

func TestVerifC05RW(t *testing.T) {
	p := vcommon.Env()
	if p.Replay != "" {
		c05Replay(t, p.Replay, "rw")
		return
	}
	col := vcommon.NewCollector("C05", "rw")
	col.SetExhaustive()
	t.Cleanup(col.Flush)
	matrix := c05Matrix()
	paths := []int{pOwnerEmb, pOtherEmb, pOwnerRaw, pOtherRaw}
	rounds := 1
	if p.Thorough() {
		rounds = 6
	}
	idx := 0
	for round := 0; round < rounds; round++ {
		for mi := range matrix {
			idx++
			if idx%p.Shards != p.Shard {
				continue
			}
			c := matrix[mi]
			c.Key = fmt.Sprintf("key-%d-%d", p.Seed%1000, idx)
			c.Path = paths[(idx/p.Shards+int(p.Seed))%len(paths)]
			c.ReadRp = (idx/7)%2 == 1
			var v *vcommon.Violation
			var nt, inc bool
			for attempt := 0; attempt < 3; attempt++ {
				v, nt, inc = runC05(&c)
				if !inc {
					break
				}
			}
			if inc {
				col.Inconclusive()
				continue
			}
			col.RecordEnumerated(nt, func() []byte { return vcommon.MustJSON(&c) })
			col.Label(fmt.Sprintf("R%d", c.R), 1)
			if v != nil {
				if vcommon.Known(v.Class) {
					col.ExcludedKnown()
					continue
				}
				path := vcommon.SaveViolation(v)
				fmt.Printf("VERIF-VIOLATION %s %s\n", path, v.Message)
				t.Errorf("%s", v.Message)
			}
		}
	}
	col.Note(fmt.Sprintf("every (R,W,RQ) with 1<=W,RQ<=R<=3, N in {R,R+1}, every subset of unreachable backup owners: %d scenarios x %d rounds with different keys and entry paths", len(matrix), rounds))
}

func TestVerifC05MCQ(t *testing.T) {
	p := vcommon.Env()
	if p.Replay != "" {
		c05Replay(t, p.Replay, "mcq")
		return
	}
	col := vcommon.NewCollector("C05", "mcq")
	t.Cleanup(col.Flush)
	rapid.Check(t, func(rt *rapid.T) {
		c := &c05Case{Kind: "mcq", MCQ: rapid.IntRange(1, 3).Draw(rt, "mcq")}
		c.Key = fmt.Sprintf("s%d", rapid.IntRange(0, 1000).Draw(rt, "salt"))
		v, nt, inc := runC05(c)
		if inc || (v != nil && vFlapsSinceMark() > 0) {
			col.Inconclusive()
			return
		}
		col.Record(vcommon.MustJSON(c), nt, fmt.Sprintf("mcq:%d", c.MCQ))
		if v != nil {
			if vcommon.Known(v.Class) {
				col.ExcludedKnown()
				return
			}
			vcommon.SaveViolation(v)
			rt.Fatalf("%s", v.Message)
		}
	})
}

func c05Replay(t *testing.T, path, part string) {
	v, err := vcommon.LoadViolation(path)
	if err != nil {
		t.Fatal(err)
	}
	if v.Part != part {
		return
	}
	c := &c05Case{}
	if err := json.Unmarshal(v.Case, c); err != nil {
		t.Fatal(err)
	}
	for i := 0; i < 3; i++ {
		got, _, inc := runC05(c)
		if inc {
			continue
		}
		if got != nil {
			p := vcommon.SaveViolation(got)
			fmt.Printf("VERIF-VIOLATION %s %s\n", p, got.Message)
			t.Fatalf("replay still fails: %s", got.Message)
		}
	}
}
