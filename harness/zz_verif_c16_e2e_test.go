package olric

// C16 end to end: a real olric-server process, real TCP connections, argument vectors and raw byte streams.

import (
	"bytes"
	"encoding/json"
	"fmt"
	"net"
	"os"
	"os/exec"
	"path/filepath"
	"strings"
	"sync"
	"testing"
	"time"

	"github.com/olric-data/olric/internal/testutil"
	"github.com/olric-data/olric/internal/zzverif/vcommon"
	"pgregory.net/rapid"
)

type c16Child struct {
	cmd    *exec.Cmd
	addr   string
	stderr *c16Buf
	dir    string
	done   chan struct{}
}

// c16StartChild starts the server; a port that another process grabbed between the probe and the bind (the other
// process may even answer PING: it can be another olric member) means another attempt, not a verdict.
func c16StartChild() (*c16Child, error) {
	var err error
	for attempt := 0; attempt < 6; attempt++ {
		var c *c16Child
		c, err = c16StartChildOnce()
		if err != nil {
			continue
		}
		// "Olric bindAddr" is logged once this very process listens on its RESP port
		for dl := time.Now().Add(10 * time.Second); time.Now().Before(dl) && c.alive() && !strings.Contains(c.stderr.String(), "Olric bindAddr"); {
			time.Sleep(20 * time.Millisecond)
		}
		if c.alive() && strings.Contains(c.stderr.String(), "Olric bindAddr") && !strings.Contains(c.stderr.String(), "Failed to start Olric") {
			return c, nil
		}
		err = fmt.Errorf("olric-server exited during start: %s", tailOf(c.stderr.String(), 400))
		c.stop()
	}
	return nil, err
}

func c16StartChildOnce() (*c16Child, error) {
	bin := filepath.Join(os.Getenv("VERIF_BIN"), "olric-server")
	if _, err := os.Stat(bin); err != nil {
		return nil, fmt.Errorf("olric-server binary not built: %v", err)
	}
	dir, err := os.MkdirTemp(".", "child")
	if err != nil {
		return nil, err
	}
	p1, err := testutil.GetFreePort()
	if err != nil {
		return nil, err
	}
	p2, err := testutil.GetFreePort()
	if err != nil {
		return nil, err
	}
	cfg := fmt.Sprintf(`server:
  bindAddr: 127.0.0.1
  bindPort: %d
  keepAlivePeriod: 300s
  bootstrapTimeout: 5s
  partitionCount: 7
  replicaCount: 1
  writeQuorum: 1
  readQuorum: 1
  readRepair: false
  replicationMode: 0
  memberCountQuorum: 1
  routingTablePushInterval: 1m
  enableClusterEventsChannel: false
client:
  dialTimeout: 5s
  readTimeout: 3s
  writeTimeout: 3s
logging:
  verbosity: 2
  level: INFO
  output: stderr
memberlist:
  environment: local
  bindAddr: 127.0.0.1
  bindPort: %d
  enableCompression: false
  joinRetryInterval: 1ms
  maxJoinAttempts: 1
dmaps:
  engine:
    name: kvstore
    config:
      tableSize: 65536
`, p1, p2)
	cfgPath := filepath.Join(dir, "olric.yaml")
	if err := os.WriteFile(cfgPath, []byte(cfg), 0o644); err != nil {
		return nil, err
	}
	c := &c16Child{addr: fmt.Sprintf("127.0.0.1:%d", p1), stderr: &c16Buf{}, dir: dir, done: make(chan struct{})}
	c.cmd = exec.Command(bin, "-c", cfgPath)
	c.cmd.Stderr = c.stderr
	c.cmd.Stdout = c.stderr
	if err := c.cmd.Start(); err != nil {
		return nil, err
	}
	go func() { _ = c.cmd.Wait(); close(c.done) }()
	deadline := time.Now().Add(10 * time.Second)
	for time.Now().Before(deadline) {
		if c.ping() {
			return c, nil
		}
		select {
		case <-c.done:
			return nil, fmt.Errorf("olric-server exited during start: %s", tailOf(c.stderr.String(), 400))
		default:
		}
		time.Sleep(20 * time.Millisecond)
	}
	c.stop()
	return nil, fmt.Errorf("olric-server did not answer PING within 10 s")
}

// c16Buf collects the child's output; the process writes it while the test reads it
type c16Buf struct {
	mu sync.Mutex
	b  bytes.Buffer
}

func (b *c16Buf) Write(p []byte) (int, error) {
	b.mu.Lock()
	defer b.mu.Unlock()
	if b.b.Len() > 4<<20 {
		// keep the tail: the start-up lines are no longer needed and a panic comes last
		tail := append([]byte(nil), b.b.Bytes()[b.b.Len()-(1<<20):]...)
		b.b.Reset()
		b.b.Write(tail)
	}
	return b.b.Write(p)
}

func (b *c16Buf) String() string {
	b.mu.Lock()
	defer b.mu.Unlock()
	return b.b.String()
}

func tailOf(s string, n int) string {
	if len(s) > n {
		return s[len(s)-n:]
	}
	return s
}

func (c *c16Child) alive() bool {
	select {
	case <-c.done:
		return false
	default:
		return true
	}
}

func (c *c16Child) ping() bool {
	rc, err := respDial(c.addr)
	if err != nil {
		return false
	}
	defer rc.c.Close()
	_ = rc.c.SetDeadline(time.Now().Add(3 * time.Second))
	v, err := rc.do("PING")
	return err == nil && v == "PONG"
}

func (c *c16Child) stop() {
	if c.alive() {
		_ = c.cmd.Process.Kill()
		<-c.done
	}
	_ = os.RemoveAll(c.dir)
}

// panicFrame extracts the first repository frame of a panic from the child's stderr.
func panicFrame(stderr string) string {
	i := strings.Index(stderr, "panic:")
	if i < 0 {
		i = strings.Index(stderr, "fatal error:")
	}
	if i < 0 {
		return "exit-without-panic"
	}
	for _, line := range strings.Split(stderr[i:], "\n") {
		if strings.Contains(line, "olric-data/olric") && strings.Contains(line, "(") && !strings.HasPrefix(line, "\t") {
			fn := line
			if j := strings.LastIndex(fn, "/"); j >= 0 {
				fn = fn[j+1:]
			}
			if j := strings.Index(fn, "("); j > 0 && !strings.HasPrefix(fn, "(") {
				// keep "pkg.(*T).Method" / "pkg.Func"
				if k := strings.LastIndex(fn, "("); k > 0 {
					fn = fn[:k]
				}
			}
			return fn
		}
	}
	return "unknown"
}

type c16Stream struct {
	Kind  string   `json:"kind"`  // argv | bytes
	Args  [][]byte `json:"args_b64,omitempty"`
	Text  []string `json:"text,omitempty"`
	Bytes []byte   `json:"bytes_b64,omitempty"`
}

// genStream draws one thing to send over a socket.
func genStream(t *rapid.T, valid [][]string) c16Stream {
	if rapid.IntRange(0, 2).Draw(t, "mode") != 0 {
		base := rapid.SampledFrom(valid).Draw(t, "base")
		if base[0] == "internal.node.updaterouting" {
			base = valid[0]
		}
		args := append([]string(nil), base[:rapid.IntRange(1, len(base)).Draw(t, "keep")]...)
		if rapid.Bool().Draw(t, "upper") {
			args[0] = strings.ToUpper(args[0])
		}
		n := rapid.IntRange(0, 6).Draw(t, "extra")
		for i := 0; i < n; i++ {
			if rapid.IntRange(0, 7).Draw(t, "raw") == 0 {
				args = append(args, string(rapid.SliceOfN(rapid.Byte(), 0, 32).Draw(t, "bytes")))
			} else {
				args = append(args, rapid.SampledFrom(c16Tokens).Draw(t, "tok"))
			}
		}
		v := mkVec(args)
		return c16Stream{Kind: "argv", Args: v.Args, Text: v.Text}
	}
	// raw bytes: RESP fragments, wrong type bytes, negative / huge / non-numeric lengths, truncated frames, inline commands, noise
	frags := []string{"*1\r\n$4\r\nPING\r\n", "*2\r\n$4\r\nPING\r\n", "*-1\r\n", "*0\r\n", "*3\r\n$6\r\nDM.GET\r\n$1\r\nd\r\n", "$-1\r\n", "$5\r\nab", "*1000000\r\n",
		"$1048576\r\n", "*1\r\n$9999999999\r\n", "*a\r\n", "$x\r\n", "PING\r\n", "dm.put d k v EX\r\n", "\r\n", "\n", "+OK\r\n", "-ERR\r\n", ":1\r\n",
		"*2\r\n$9\r\nSUBSCRIBE\r\n$1\r\na\r\n", "*1\r\n$4\r\nQUIT\r\n", "\x00\xff\xfe", "*1\r\n$0\r\n\r\n", "* 1\r\n", "*1\r\n$ 4\r\nPING\r\n"}
	var buf []byte
	n := rapid.IntRange(1, 8).Draw(t, "nfrag")
	for i := 0; i < n; i++ {
		if rapid.IntRange(0, 4).Draw(t, "noise") == 0 {
			buf = append(buf, rapid.SliceOfN(rapid.Byte(), 1, 40).Draw(t, "noise-bytes")...)
		} else {
			buf = append(buf, rapid.SampledFrom(frags).Draw(t, "frag")...)
		}
	}
	return c16Stream{Kind: "bytes", Bytes: buf}
}

// sendStream writes the stream on a fresh connection and waits briefly for whatever comes back.
func sendStream(addr string, s c16Stream) {
	conn, err := net.DialTimeout("tcp", addr, 2*time.Second)
	if err != nil {
		return
	}
	defer conn.Close()
	_ = conn.SetDeadline(time.Now().Add(400 * time.Millisecond))
	if s.Kind == "argv" {
		var sb bytes.Buffer
		fmt.Fprintf(&sb, "*%d\r\n", len(s.Args))
		for _, a := range s.Args {
			fmt.Fprintf(&sb, "$%d\r\n", len(a))
			sb.Write(a)
			sb.WriteString("\r\n")
		}
		_, _ = conn.Write(sb.Bytes())
	} else {
		_, _ = conn.Write(s.Bytes)
	}
	buf := make([]byte, 4096)
	_, _ = conn.Read(buf)
}

func TestVerifC16E2E(t *testing.T) {
	p := vcommon.Env()
	child, err := c16StartChild()
	if err != nil {
		t.Fatalf("inconclusive: %v", err)
	}
	defer func() { child.stop() }()
	rawEntry := string(append([]byte{1, 'k'}, make([]byte, 28)...))
	valid := c16ValidCommands(rawEntry, "x", "x", "1")
	report := func(class string, s c16Stream, format string, args ...interface{}) {
		v := vcommon.NewViolation("C16", "e2e", class, s, format, args...)
		if vcommon.Known(class) {
			return
		}
		path := vcommon.SaveViolation(v)
		fmt.Printf("VERIF-VIOLATION %s %s\n", path, v.Message)
	}
	check := func(s c16Stream) bool {
		sendStream(child.addr, s)
		// the member must still be there and serve a fresh connection
		// a live process that answers no PING (3 s each) for about a minute is wedged; on a loaded machine a single
		// PING may well take seconds
		for i := 0; i < 20; i++ {
			if child.ping() {
				return true
			}
			if !child.alive() {
				break
			}
			time.Sleep(100 * time.Millisecond)
		}
		if !child.alive() {
			frame := panicFrame(child.stderr.String())
			report("child-died:"+frame, s, "the olric-server process terminated after this input: %s", tailOf(child.stderr.String(), 600))
		} else {
			report("child-wedged", s, "the olric-server process no longer answers PING on a fresh connection after this input")
		}
		return false
	}
	if p.Replay != "" {
		v, err := vcommon.LoadViolation(p.Replay)
		if err != nil {
			t.Fatal(err)
		}
		s := c16Stream{}
		if err := json.Unmarshal(v.Case, &s); err != nil {
			t.Fatal(err)
		}
		if !check(s) {
			t.Fatalf("replay still fails")
		}
		return
	}
	col := vcommon.NewCollector("C16", "e2e")
	t.Cleanup(col.Flush)
	failed := false
	rapid.Check(t, func(rt *rapid.T) {
		if failed {
			rt.Skip("a violation was already reported")
		}
		s := genStream(rt, valid)
		ok := check(s)
		col.Record(vcommon.MustJSON(s), true, "kind:"+s.Kind)
		if !ok {
			failed = true
			// restart for the shrinker
			child.stop()
			if nc, err := c16StartChild(); err == nil {
				child = nc
				failed = false
			}
			rt.Fatalf("olric-server died or wedged")
		}
	})
}
