package olric

// C02: acknowledged writes survive the loss of up to ReplicaCount-1 members.

import (
	"context"
	"encoding/json"
	"fmt"
	"os"
	"strings"
	"sync"
	"sync/atomic"
	"testing"
	"time"

	"github.com/olric-data/olric/internal/cluster/partitions"
	"github.com/olric-data/olric/internal/verifhook"
	"github.com/olric-data/olric/internal/zzverif/vcommon"
	"pgregory.net/rapid"
)

type c02Op struct {
	Op     string `json:"op"` // put del get stop
	K      int    `json:"k"`
	Member int    `json:"member"`
	// stop:
	Role  string `json:"role,omitempty"`  // primary backup coordinator bystander (relative to key K)
	Kind  string `json:"kind,omitempty"`  // leave kill
	Point string `json:"point,omitempty"` // "" = between operations; put.afterBackup put.beforeLocal del.afterPrev del.afterBackups = inside the next write of key K
	Burst int    `json:"burst,omitempty"` // kill between operations: this many Puts (keys K, K+1, ...) are issued at once, before the cluster has noticed
}

type c02Case struct {
	N          int     `json:"n"`
	R          int     `json:"r"`
	Partitions int     `json:"partitions"`
	ReadRepair bool    `json:"read_repair"`
	Keys       int     `json:"keys"`
	Ops        []c02Op `json:"ops"`
}

func genC02(t *rapid.T) *c02Case {
	c := &c02Case{}
	c.R = rapid.IntRange(2, 3).Draw(t, "r")
	c.N = rapid.IntRange(c.R+1, 5).Draw(t, "n")
	if c.N < 3 {
		c.N = 3
	}
	c.Partitions = rapid.SampledFrom([]int{7, 13}).Draw(t, "partitions")
	c.ReadRepair = rapid.Bool().Draw(t, "rr")
	c.Keys = rapid.IntRange(8, 24).Draw(t, "keys")
	n := rapid.IntRange(20, 60).Draw(t, "nops")
	stops := 0
	// front-load writes so that most keys are written before the first stop
	for i := 0; i < c.Keys; i++ {
		c.Ops = append(c.Ops, c02Op{Op: "put", K: i, Member: rapid.IntRange(0, 4).Draw(t, "m")})
	}
	for i := 0; i < n; i++ {
		op := c02Op{Op: rapid.SampledFrom([]string{"put", "put", "put", "del", "get", "get", "stop"}).Draw(t, "op")}
		op.K = rapid.IntRange(0, c.Keys-1).Draw(t, "k")
		op.Member = rapid.IntRange(0, 4).Draw(t, "m")
		if op.Op == "stop" {
			if stops >= c.R-1 {
				op.Op = "put"
			} else {
				stops++
				op.Role = rapid.SampledFrom([]string{"primary", "primary", "backup", "backup", "coordinator", "bystander"}).Draw(t, "role")
				op.Kind = rapid.SampledFrom([]string{"leave", "kill", "kill"}).Draw(t, "kind")
				op.Point = rapid.SampledFrom([]string{"", "", "", "put.afterBackup", "put.beforeLocal", "del.afterPrev", "del.afterBackups"}).Draw(t, "point")
				if op.Kind == "kill" && op.Point == "" {
					op.Burst = rapid.SampledFrom([]int{0, 3, 8}).Draw(t, "burst")
				}
			}
		}
		c.Ops = append(c.Ops, op)
	}
	return c
}

type c02Key struct {
	admissible map[string]bool // values the key may hold; "" = absent
	asserted   bool            // last acknowledged write happened with >= R members present
	everSet    bool
	// bookkeeping for telling the two recorded findings (KNOWN_FINDINGS.txt) from anything else:
	cur            string          // the value of the last acknowledged Put ("" after an acknowledged Delete)
	held           map[string]bool // members seen holding a copy of cur since that Put was acknowledged
	delRearranging bool            // the last acknowledged Delete ran after a stop, while the partition's owner lists were being re-arranged
	orphaned       map[string]bool // values of this key seen, after a stop and since the key's last acknowledged Put, in a fragment that its partition's primary owner does not list (scanOrphans)
}

// c02OrphansSeen counts (over the process) the unlisted copies the durability part has come across.
var c02OrphansSeen int64

func runC02(c *c02Case) (v *vcommon.Violation, nontrivial, inconclusive bool) {
	opts := vOpts{Members: c.N, Replicas: c.R, Partitions: c.Partitions, ReadRepair: c.ReadRepair, FastDetect: true, TableSize: 1024}
	cl, err := vNewCluster(opts)
	if err != nil {
		return nil, false, true
	}
	defer cl.shutdown()
	defer verifhook.Reset()
	name := freshName("c02-")
	var hist []string
	step := -1
	bad := func(class, format string, args ...interface{}) *vcommon.Violation {
		cut := *c
		if step >= 0 && step+1 < len(c.Ops) {
			cut.Ops = c.Ops[:step+1]
		}
		v := vcommon.NewViolation("C02", "durability", class, &cut, format, args...)
		v.Message = fmt.Sprintf("step %d: %s", step, v.Message)
		if len(hist) > 300 {
			hist = hist[len(hist)-300:]
		}
		v.History = vcommon.MustJSON(hist)
		return v
	}
	keys := make([]*c02Key, c.Keys)
	for i := range keys {
		keys[i] = &c02Key{admissible: map[string]bool{"": true}}
	}
	keyName := func(i int) string { return fmt.Sprintf("key-%d", i) }
	stopsDone := 0
	overwrittenBeforeStop := false

	// one operation with a time limit: an embedded call on a member that is stopped underneath may never return
	type opRes struct {
		val string
		err string
	}
	exec := func(m *vMember, op string, key, val string) (opRes, bool) {
		ch := make(chan opRes, 1)
		go func() {
			ctx, cancel := context.WithTimeout(context.Background(), 8*time.Second)
			defer cancel()
			dm, err := m.emb.NewDMap(name)
			if err != nil {
				ch <- opRes{err: errClass(err)}
				return
			}
			switch op {
			case "put":
				ch <- opRes{err: errClass(dm.Put(ctx, key, []byte(val)))}
			case "del":
				_, err := dm.Delete(ctx, key)
				ch <- opRes{err: errClass(err)}
			default:
				r := fromGetResponse(dm.Get(ctx, key))
				ch <- opRes{val: string(r.Val), err: r.Err}
			}
		}()
		select {
		case r := <-ch:
			return r, true
		case <-time.After(12 * time.Second):
			return opRes{err: "other:timeout"}, false
		}
	}

	// crash point: armed for one key, fires inside the primary owner's write path
	var armMu sync.Mutex
	var armedPoint, armedKey string
	var armedVictim *vMember
	fired := make(chan struct{}, 1)
	handler := func(point string) func(args ...string) {
		return func(args ...string) {
			armMu.Lock()
			hit := armedPoint == point && len(args) >= 2 && args[1] == armedKey && armedVictim != nil && args[0] == armedVictim.name
			victim := armedVictim
			if hit {
				armedPoint = ""
			}
			armMu.Unlock()
			if !hit {
				return
			}
			go cl.kill(victim)
			select {
			case fired <- struct{}{}:
			default:
			}
			select {} // the member is gone: this goroutine never continues
		}
	}
	for _, p := range []string{"put.afterBackup", "put.beforeLocal", "del.afterPrev", "del.afterBackups"} {
		verifhook.Set(p, handler(p))
	}

	var classify func(i int, got string) string
	var scanOrphans func(at int)
	checkAll := func(where string) *vcommon.Violation {
		scanOrphans(step)
		for i, k := range keys {
			if !k.asserted {
				continue
			}
			var first string
			for mi, m := range cl.live() {
				r, ok := exec(m, "get", keyName(i), "")
				if !ok || strings.HasPrefix(r.err, "other:") {
					return nil // cannot decide now
				}
				got := r.val
				if r.err == "notfound" {
					got = ""
				} else if r.err != "" {
					return bad("read-error", "%s: Get(%s) from %s failed: %s", where, keyName(i), m.name, r.err)
				}
				if !k.admissible[got] {
					// where the copies are and who is listed for the partition, as every survivor sees it
					var diag []string
					hkey := partitions.HKey(name, keyName(i))
					for _, mm := range cl.live() {
						var own, bak []string
						for _, o := range mm.db.primary.PartitionOwnersByHKey(hkey) {
							own = append(own, o.Name)
						}
						for _, o := range mm.db.backup.PartitionOwnersByHKey(hkey) {
							bak = append(bak, o.Name)
						}
						diag = append(diag, fmt.Sprintf("%s: primary copy %q backup copy %q; lists owners %v backups %v", mm.name,
							decodeCopy(mm.db.dmap.VerifRaw(name, keyName(i), partitions.PRIMARY)).value, decodeCopy(mm.db.dmap.VerifRaw(name, keyName(i), partitions.BACKUP)).value, own, bak))
					}
					hist = append(hist, diag...)
					return bad(classify(i, got), "%s: key %s reads %q from %s; admissible after the acknowledged history: %v (R=%d, %d members stopped)", where, keyName(i), got, m.name, keysOf(k.admissible), c.R, stopsDone)
				}
				if mi == 0 {
					first = got
				} else if got != first {
					return bad("members-disagree", "%s: key %s reads %q from %s and %q from %s", where, keyName(i), first, cl.live()[0].name, got, m.name)
				}
			}
		}
		return nil
	}

	// diagnostic: which survivor holds a primary (P) / backup (B) copy of every key
	copiesOf := func() string {
		var out []string
		for i := range keys {
			var hs []string
			for _, mm := range cl.live() {
				port := mm.name[strings.LastIndex(mm.name, ":")+1:]
				if mm.db.dmap.VerifCheck(name, keyName(i), partitions.PRIMARY) {
					hs = append(hs, "P@"+port)
				}
				if mm.db.dmap.VerifCheck(name, keyName(i), partitions.BACKUP) {
					hs = append(hs, "B@"+port)
				}
			}
			var rt []string
			if lv := cl.live(); len(lv) > 0 {
				hkey := partitions.HKey(name, keyName(i))
				for _, o := range lv[0].db.primary.PartitionOwnersByHKey(hkey) {
					rt = append(rt, "o"+o.Name[strings.LastIndex(o.Name, ":")+1:])
				}
				for _, o := range lv[0].db.backup.PartitionOwnersByHKey(hkey) {
					rt = append(rt, "b"+o.Name[strings.LastIndex(o.Name, ":")+1:])
				}
			}
			views := map[string]bool{}
			var vs []string
			for _, mm := range cl.live() {
				var one []string
				hkey := partitions.HKey(name, keyName(i))
				for _, o := range mm.db.primary.PartitionOwnersByHKey(hkey) {
					one = append(one, "o"+o.Name[strings.LastIndex(o.Name, ":")+1:])
				}
				for _, o := range mm.db.backup.PartitionOwnersByHKey(hkey) {
					one = append(one, "b"+o.Name[strings.LastIndex(o.Name, ":")+1:])
				}
				s := strings.Join(one, ",")
				views[s] = true
				vs = append(vs, mm.name[strings.LastIndex(mm.name, ":")+1:]+"sees("+s+")")
			}
			differ := ""
			if len(views) > 1 {
				differ = "VIEWS-DIFFER:" + strings.Join(vs, ";")
			}
			out = append(out, fmt.Sprintf("%d:%s[%s]%s", i, strings.Join(hs, ","), strings.Join(rt, ","), differ))
		}
		return strings.Join(out, " ")
	}
	// noteHolders records which members hold a copy of key i's current value right now
	noteHolders := func(i int) {
		k := keys[i]
		if k.cur == "" {
			return
		}
		if k.held == nil {
			k.held = map[string]bool{}
		}
		for _, mm := range cl.live() {
			for _, kind := range []partitions.Kind{partitions.PRIMARY, partitions.BACKUP} {
				if rc := decodeCopy(mm.db.dmap.VerifRaw(name, keyName(i), kind)); rc.present && string(rc.value) == k.cur {
					k.held[mm.name] = true
				}
			}
		}
	}
	noteAllHolders := func() {
		for i := range keys {
			noteHolders(i)
		}
	}
	// rearranging: the partition of key i lists previous owners or more backup owners than the replica count asks
	// for (hand-overs pending), or the members do not agree on its owner lists yet
	rearranging := func(i int) bool {
		hkey := partitions.HKey(name, keyName(i))
		views := map[string]bool{}
		for _, mm := range cl.live() {
			po, bo := mm.db.primary.PartitionOwnersByHKey(hkey), mm.db.backup.PartitionOwnersByHKey(hkey)
			if len(po) > 1 || len(bo) > c.R-1 {
				return true
			}
			views[fmt.Sprint(po, bo)] = true
		}
		return len(views) > 1
	}
	// scanOrphans (after a stop) looks for copies that a Put or Delete executed right now would not reach: a copy in a
	// backup fragment of a member that the partition's primary owner - the member that executes the operation, judged
	// by its own table - does not list as a backup owner, or in a primary fragment of a member it lists neither as the
	// owner nor as a previous owner. Such a copy is what the second recorded finding is about: the coordinator pruned
	// the member from the list while its fragment was empty for a moment and a write, replicated under the table of a
	// moment before, landed there (typically: the new primary owner's former backup fragment). No Put or Delete
	// reaches it any more; the balancer moves it to the listed owners some time later, where it overrides nothing
	// newer but brings a deleted key back. The values seen in such a place are remembered per key, from the key's
	// last acknowledged Put on.
	orphansSeen := 0
	defer func() {
		atomic.AddInt64(&c02OrphansSeen, int64(orphansSeen))
		if d := os.Getenv("VERIF_SAVE_KNOWN"); d != "" && orphansSeen > 0 {
			_ = os.WriteFile(fmt.Sprintf("%s/unlisted-%d-%d.json", d, os.Getpid(), time.Now().UnixNano()), vcommon.MustJSON(hist), 0o644)
		}
	}()
	scanOrphans = func(at int) {
		if stopsDone == 0 {
			return
		}
		lv := cl.live()
		unlistedBy := ""
		for i, k := range keys {
			hkey := partitions.HKey(name, keyName(i))
			for _, mm := range lv {
				for _, kind := range []partitions.Kind{partitions.PRIMARY, partitions.BACKUP} {
					rc := decodeCopy(mm.db.dmap.VerifRaw(name, keyName(i), kind))
					if !rc.present {
						continue
					}
					// listed = some survivor that takes itself for the partition's primary owner - a member that
					// would execute a Put or Delete of this key right now - has mm in its list for that kind of
					// fragment, i.e. its Delete would reach this copy. (Two members that both take themselves
					// for the owner, between two pushes, is the other half of the finding: rearranging().)
					listed, executors := false, 0
					for _, vv := range lv {
						po := vv.db.primary.PartitionOwnersByHKey(hkey)
						if len(po) == 0 || po[len(po)-1].Name != vv.name {
							continue
						}
						executors++
						owners := po
						if kind == partitions.BACKUP {
							owners = vv.db.backup.PartitionOwnersByHKey(hkey)
						}
						in := false
						for _, o := range owners {
							if o.Name == mm.name {
								in = true
							}
						}
						if in {
							listed = true
						} else {
							unlistedBy = vv.name
						}
					}
					if executors == 0 {
						continue
					}
					if listed {
						continue
					}
					if k.orphaned == nil {
						k.orphaned = map[string]bool{}
					}
					if !k.orphaned[string(rc.value)] {
						k.orphaned[string(rc.value)] = true
						orphansSeen++
						hist = append(hist, fmt.Sprintf("%d   unlisted copy: %s holds %q of %s in its %v fragment, and %s, which takes itself for the partition's primary owner, does not list it; copies: %s", at, mm.name, rc.value, keyName(i), kind, unlistedBy, copiesOf()))
					}
				}
			}
		}
	}
	// classify names the mechanism of a wrong read of key i when it is one of the two recorded ones
	classify = func(i int, got string) string {
		k := keys[i]
		if k.admissible[""] && got != "" && (len(k.admissible) == 1 || k.delRearranging) {
			if k.delRearranging || k.orphaned[got] {
				return "resurrected:delete-while-owner-lists-rearranged"
			}
			return "resurrected"
		}
		for _, mm := range cl.live() {
			if k.held[mm.name] {
				return "lost:survivor-gave-its-copy-away"
			}
		}
		return "lost-or-rolled-back"
	}
	for i, op := range c.Ops {
		step = i
		live := cl.live()
		key := keyName(op.K)
		k := keys[op.K]
		if op.Op == "stop" {
			noteAllHolders()
			hist = append(hist, fmt.Sprintf("%d   copies before the stop: %s", i, copiesOf()))
		}
		switch op.Op {
		case "stop":
			var victim *vMember
			owner := cl.ownerOf(name, key)
			switch op.Role {
			case "primary":
				victim = owner
			case "backup":
				if b := cl.backupsOf(name, key); len(b) > 0 {
					victim = b[op.Member%len(b)]
				}
			case "coordinator":
				victim = cl.coordinator()
			default:
				for _, m := range live {
					isB := false
					for _, b := range cl.backupsOf(name, key) {
						if b == m {
							isB = true
						}
					}
					if m != owner && !isB {
						victim = m
					}
				}
			}
			if victim == nil {
				victim = live[op.Member%len(live)]
			}
			if (victim == owner || op.Role == "backup") && k.asserted {
				nontrivial = nontrivial || overwrittenBeforeStop
			}
			hist = append(hist, fmt.Sprintf("%d stop %s (%s of %s) %s point=%q", i, victim.name, op.Role, key, op.Kind, op.Point))
			if op.Point != "" && victim == owner {
				// crash inside a write of this key, executed by the owner, requested through another member
				var entry *vMember
				for _, m := range live {
					if m != owner {
						entry = m
					}
				}
				armMu.Lock()
				armedPoint, armedKey, armedVictim = op.Point, key, owner
				armMu.Unlock()
				wop, val := "put", fmt.Sprintf("v%d", i)
				if strings.HasPrefix(op.Point, "del.") {
					wop, val = "del", ""
				}
				r, _ := exec(entry, wop, key, val)
				armMu.Lock()
				stillArmed := armedPoint != ""
				armedPoint = ""
				armMu.Unlock()
				hist = append(hist, fmt.Sprintf("%d   %s(%s) through %s cut at %s -> %q fired=%v", i, wop, key, entry.name, op.Point, r.err, !stillArmed))
				if stillArmed {
					// the point was not reached (e.g. the key has no previous owner / the write failed earlier): plain stop
					if r.err == "" {
						k.admissible = map[string]bool{val: true}
						k.everSet = true
						k.orphaned = nil
					} else {
						k.admissible[val] = true
					}
					cl.kill(victim)
				} else {
					// the write was cut: it may or may not have taken effect
					k.admissible[val] = true
					if r.err == "" {
						k.admissible = map[string]bool{val: true}
						k.orphaned = nil
					}
					// wait until the harness' bookkeeping sees the victim as stopped
					for j := 0; j < 500 && victim.alive; j++ {
						time.Sleep(2 * time.Millisecond)
					}
				}
			} else if op.Kind == "kill" {
				cl.kill(victim)
				// writes issued before the failure detector has noticed: R members or more are still present and
				// healthy, so what is acknowledged now is covered as well
				survivors := cl.live()
				for j := 0; j < op.Burst && len(survivors) > 0; j++ {
					kk := (op.K + j) % c.Keys
					k2 := keys[kk]
					m := survivors[(op.Member+j)%len(survivors)]
					val := fmt.Sprintf("v%d-%d", i, j)
					r, _ := exec(m, "put", keyName(kk), val)
					hist = append(hist, fmt.Sprintf("%d   put(%s,%q) via %s right after the kill -> %q", i, keyName(kk), val, m.name, r.err))
					if r.err == "" {
						k2.admissible = map[string]bool{val: true}
						k2.asserted = len(survivors) >= c.R
						k2.everSet = true
						nontrivial = true
						k2.cur, k2.held, k2.delRearranging, k2.orphaned = val, nil, false, nil
						noteHolders(kk)
					} else {
						k2.admissible[val] = true
					}
				}
			} else {
				cl.stop(victim)
			}
			stopsDone++
			if err := cl.waitSettled(25 * time.Second); err != nil {
				return nil, nontrivial, true
			}
			// re-stabilised: every listed owner is alive
			if class, _ := checkRouting(cl, &c13Case{Replicas: c.R, Partitions: c.Partitions}, nil); class != "" {
				dl := time.Now().Add(8 * time.Second)
				for class != "" && time.Now().Before(dl) {
					time.Sleep(50 * time.Millisecond)
					class, _ = checkRouting(cl, &c13Case{Replicas: c.R, Partitions: c.Partitions}, nil)
				}
				if class != "" {
					return nil, nontrivial, true
				}
			}
			hist = append(hist, fmt.Sprintf("%d   copies after the stop: %s", i, copiesOf()))
			if v := checkAll(fmt.Sprintf("after stopping %s (%s)", victim.name, op.Kind)); v != nil {
				return v, nontrivial, false
			}
		case "put", "del":
			m := live[op.Member%len(live)]
			val := fmt.Sprintf("v%d", i)
			if op.Op == "del" {
				val = ""
			}
			r, ok := exec(m, op.Op, key, val)
			hist = append(hist, fmt.Sprintf("%d %s(%s,%q) via %s -> %q", i, op.Op, key, val, m.name, r.err))
			if op.Op == "del" && stopsDone > 0 {
				hist = append(hist, fmt.Sprintf("%d   copies after the delete: %s", i, copiesOf()))
			}
			if !ok {
				return nil, nontrivial, true
			}
			if r.err == "" {
				if k.everSet && stopsDone == 0 {
					overwrittenBeforeStop = true
				}
				k.admissible = map[string]bool{val: true}
				k.asserted = len(live) >= c.R
				k.everSet = true
			} else {
				if strings.HasPrefix(r.err, "other:") && stopsDone == 0 {
					// a transport error before any stop: the fast failure detector flapped under load
					// (a member was declared dead and its client closed); membership was not stable
					return nil, nontrivial, true
				}
				if !strings.HasPrefix(r.err, "other:") {
					return bad("write-fails", "%s(%s) through %s failed in a stable cluster of %d members: %s", op.Op, key, m.name, len(live), r.err), nontrivial, false
				}
				k.admissible[val] = true
			}
		case "get":
			m := live[op.Member%len(live)]
			r, ok := exec(m, "get", key, "")
			hist = append(hist, fmt.Sprintf("%d get(%s) via %s -> %q %q", i, key, m.name, r.val, r.err))
			if !ok || strings.HasPrefix(r.err, "other:") {
				return nil, nontrivial, true
			}
			got := r.val
			if r.err == "notfound" {
				got = ""
			} else if r.err != "" {
				return bad("read-error", "Get(%s) from %s failed: %s", key, m.name, r.err), nontrivial, false
			}
			scanOrphans(i)
			if k.asserted && !k.admissible[got] {
				hist = append(hist, fmt.Sprintf("%d   copies at the failing read: %s", i, copiesOf()))
				return bad(classify(op.K, got), "key %s reads %q from %s; admissible after the acknowledged history: %v (R=%d, %d members stopped)", key, got, m.name, keysOf(k.admissible), c.R, stopsDone), nontrivial, false
			}
		}
		// bookkeeping for classify: a new certain value starts a new holder set; an acknowledged Delete remembers
		// whether the partition's owner lists were in motion
		for ki, kk := range keys {
			if len(kk.admissible) != 1 {
				// a write whose outcome is unknown (it failed at the transport level) joins the admissible values;
				// as long as "deleted" is still one of them, the circumstances of that Delete stay relevant
				if kk.cur == "" || !kk.admissible[kk.cur] {
					kk.cur, kk.held = "", nil
				}
				if !kk.admissible[""] {
					kk.delRearranging = false
				}
				continue
			}
			var only string
			for v := range kk.admissible {
				only = v
			}
			if only != kk.cur || (only == "" && op.Op == "del" && ki == op.K) {
				kk.cur, kk.held = only, nil
				// unreachable copies count from the key's last acknowledged Put on: what was out of reach before it may
				// have been brought to a listed owner since (the scan below looks again). An acknowledged Delete keeps
				// the note: the copy it could not reach may be on its way to a listed owner right now.
				if only != "" {
					kk.orphaned = nil
				}
				// the recorded finding is about copies the deleting owner does not list (or that are in flight); a
				// copy that is still there, right after the acknowledged Delete, on a member the owner DOES list is
				// something else
				kk.delRearranging = only == "" && stopsDone > 0 && rearranging(ki)
			}
			if op.Op != "get" && ki == op.K || op.Op == "stop" {
				noteHolders(ki)
			}
		}
		if op.Op == "put" || op.Op == "del" {
			scanOrphans(i)
		}
	}
	step = len(c.Ops) - 1
	if v := checkAll("at the end"); v != nil {
		return v, nontrivial, false
	}
	return nil, nontrivial, false
}

func TestVerifC02(t *testing.T) {
	p := vcommon.Env()
	if p.Replay != "" {
		v, err := vcommon.LoadViolation(p.Replay)
		if err != nil {
			t.Fatal(err)
		}
		c := &c02Case{}
		if err := json.Unmarshal(v.Case, c); err != nil {
			t.Fatal(err)
		}
		for i := 0; i < 3; i++ {
			got, _, inc := runC02(c)
			if inc || (got != nil && vFlapsSinceMark() > 0) {
				// as in the search below: a member the harness had not stopped was dropped by the failure detector
				fmt.Printf("VERIF-INCONCLUSIVE replay %d (flaps since the case began: %d)\n", i, vFlapsSinceMark())
				continue
			}
			if got != nil {
				path := vcommon.SaveViolation(got)
				fmt.Printf("VERIF-VIOLATION %s %s\n", path, got.Message)
				t.Fatalf("replay still fails: %s", got.Message)
			}
		}
		return
	}
	col := vcommon.NewCollector("C02", "durability")
	t.Cleanup(func() {
		col.Label("unlisted-copies-seen", atomic.LoadInt64(&c02OrphansSeen))
		col.Flush()
	})
	rapid.Check(t, func(rt *rapid.T) {
		c := genC02(rt)
		v, nt, inc := runC02(c)
		if inc || (v != nil && vFlapsSinceMark() > 0) {
			col.Inconclusive()
			return
		}
		labels := []string{fmt.Sprintf("R:%d", c.R), fmt.Sprintf("N:%d", c.N)}
		for _, op := range c.Ops {
			if op.Op == "stop" {
				labels = append(labels, "victim:"+op.Role, "kind:"+op.Kind, "point:"+op.Point)
			}
		}
		col.Record(vcommon.MustJSON(c), nt, labels...)
		if v != nil {
			if vcommon.Known(v.Class) {
				col.ExcludedKnown()
				// diagnosis only: VERIF_SAVE_KNOWN=<dir> keeps the histories of the cases that ended in a recorded finding
				if d := os.Getenv("VERIF_SAVE_KNOWN"); d != "" {
					_ = os.WriteFile(fmt.Sprintf("%s/known-%d-%d.json", d, os.Getpid(), time.Now().UnixNano()), vcommon.MustJSON(v), 0o644)
				}
				return
			}
			vcommon.SaveViolation(v)
			rt.Fatalf("%s", v.Message)
		}
	})
}
