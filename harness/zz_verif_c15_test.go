package olric

// C15: an operation means the same thing through every client path.

import (
	"bytes"
	"context"
	"encoding/json"
	"fmt"
	"strconv"
	"testing"
	"time"

	"github.com/olric-data/olric/internal/zzverif/vcommon"
	"pgregory.net/rapid"
)

type c15Case struct {
	Opts    vOpts  `json:"opts"`
	Op      string `json:"op"`    // put expire getput incr decr incrbyfloat lock delete
	Prior   string `json:"prior"` // absent present presentttl expired
	Opt     putOpt `json:"opt"`
	Ms      int64  `json:"ms,omitempty"`      // expire / lock timeout / lease
	Delta   int    `json:"delta,omitempty"`   // incr/decr
	After   string `json:"after,omitempty"`   // lock: unlock | lease | none
	NKeys   int    `json:"nkeys,omitempty"`   // delete
	Missing int    `json:"missing,omitempty"` // delete: number of named keys that do not exist
	UseP    bool   `json:"usep,omitempty"`    // raw EXPIRE vs PEXPIRE
	Pick    int    `json:"pick,omitempty"`
}

const c15LongTTL = 60000 // ms, never reached inside a case

func genVOpts(t *rapid.T, maxMembers, maxReplicas int) vOpts {
	o := vOpts{}
	o.Members = rapid.IntRange(1, maxMembers).Draw(t, "members")
	o.Replicas = rapid.IntRange(1, maxReplicas).Draw(t, "replicas")
	o.Partitions = rapid.SampledFrom([]int{7, 13}).Draw(t, "partitions")
	o.TableSize = rapid.SampledFrom([]int{0, 1024, 4096}).Draw(t, "tableSize")
	return o
}

func genC15(t *rapid.T) *c15Case {
	c := &c15Case{}
	c.Opts = genVOpts(t, 3, 2)
	if c.Opts.Members == 1 {
		c.Opts.Members = 2
	}
	c.Op = rapid.SampledFrom([]string{"put", "put", "put", "put", "expire", "getput", "incr", "decr", "incrbyfloat", "lock", "delete", "delete"}).Draw(t, "op")
	c.Prior = rapid.SampledFrom([]string{"absent", "present", "presentttl", "expired"}).Draw(t, "prior")
	c.Pick = rapid.IntRange(0, 3).Draw(t, "pick")
	switch c.Op {
	case "put":
		c.Opt.Cond = rapid.SampledFrom([]string{"", "NX", "XX"}).Draw(t, "cond")
		c.Opt.Exp = rapid.SampledFrom([]string{"", "EX", "PX", "EXAT", "PXAT"}).Draw(t, "exp")
		if c.Opt.Exp != "" {
			c.Opt.Ms = rapid.SampledFrom([]int64{1500, 20000, 3600000}).Draw(t, "ms")
		}
	case "expire":
		c.Ms = rapid.SampledFrom([]int64{2000, 30000}).Draw(t, "ms")
		c.UseP = rapid.Bool().Draw(t, "usep")
	case "incr", "decr":
		c.Delta = rapid.SampledFrom([]int{1, 5, 1000}).Draw(t, "delta")
	case "lock":
		// 2500 and 4500: the raw spelling "EX <seconds>" carries a fraction
		c.Ms = rapid.SampledFrom([]int64{0, 5000, 30000, 2500, 4500}).Draw(t, "timeout")
		c.After = rapid.SampledFrom([]string{"unlock", "lease", "none"}).Draw(t, "after")
	case "delete":
		c.NKeys = rapid.IntRange(1, 8).Draw(t, "nkeys")
		c.Missing = rapid.IntRange(0, 2).Draw(t, "missing")
		if c.Missing > c.NKeys {
			c.Missing = c.NKeys
		}
	}
	return c
}

func c15Nontrivial(c *c15Case) bool {
	switch c.Op {
	case "put":
		return c.Opt.Cond != "" && c.Opt.Exp != ""
	case "delete":
		return c.NKeys >= 2
	}
	return true // every case runs the forwarded paths P2 and P5
}

func ttlInWindow(ttl int64, inv, ret int64, ms int64, slack int64) bool {
	lo := inv/1e6 + ms - slack
	hi := ret/1e6 + ms + slack + 1
	return ttl >= lo && ttl <= hi
}

// runC15 executes the case once per path on identically prepared fresh keys.
func runC15(c *c15Case) (v *vcommon.Violation, inconclusive bool) {
	cl, err := pooledCluster(c.Opts)
	if err != nil {
		return nil, true
	}
	ctx, cancel := context.WithTimeout(context.Background(), 30*time.Second)
	defer cancel()
	name := freshName("c15-")
	prep := &pathClient{cl: cl, dmap: name, path: pOwnerEmb}
	fail := func(class, format string, args ...interface{}) *vcommon.Violation {
		return vcommon.NewViolation("C15", "paths", class, c, format, args...)
	}

	prepare := func(key string, val []byte) (wasPresent bool, priorTTL int64, bad string) {
		switch c.Prior {
		case "absent":
			return false, 0, ""
		case "present":
			if r := prep.put(ctx, key, val, putOpt{}); r.Err != "" {
				return false, 0, r.Err
			}
			return true, 0, ""
		case "presentttl":
			r := prep.put(ctx, key, val, putOpt{Exp: "PX", Ms: c15LongTTL})
			if r.Err != "" {
				return false, 0, r.Err
			}
			g := prep.get(ctx, key)
			if g.Err != "" || !g.Found {
				return false, 0, "prepare-readback:" + g.Err
			}
			return true, g.TTL, ""
		default: // expired
			if r := prep.put(ctx, key, val, putOpt{Exp: "PX", Ms: 1}); r.Err != "" {
				return false, 0, r.Err
			}
			time.Sleep(4 * time.Millisecond)
			return false, 0, ""
		}
	}

	paths := []int{pOwnerEmb, pOtherEmb, pCluster, pOwnerRaw, pOtherRaw, pPipeline}
	if c.Op == "delete" {
		return runC15Delete(ctx, c, cl, name, paths)
	}
	for _, path := range paths {
		pc := &pathClient{cl: cl, dmap: name, path: path, pick: c.Pick, batch: true}
		key := fmt.Sprintf("k-%d", path)
		oldVal := []byte("old-" + strconv.Itoa(path))
		if c.Op == "incr" || c.Op == "decr" {
			oldVal = []byte("40")
		}
		if c.Op == "incrbyfloat" {
			oldVal = []byte("1.5")
		}
		present, priorTTL, bad := prepare(key, oldVal)
		if bad != "" {
			return fail("prepare", "path %s: preparing state %s failed: %s", pathNames[path], c.Prior, bad), false
		}
		pn := pathNames[path]
		newVal := []byte("new-" + strconv.Itoa(path))
		switch c.Op {
		case "put":
			r := pc.put(ctx, key, newVal, c.Opt)
			wantErr := ""
			if c.Opt.Cond == "NX" && present {
				wantErr = "keyfound"
			}
			if c.Opt.Cond == "XX" && !present {
				wantErr = "notfound"
			}
			if r.Err != wantErr {
				return fail("put-result:"+c.Opt.Cond+":"+c.Prior, "path %s: Put(%+v) on %s key returned %q, want %q", pn, c.Opt, c.Prior, r.Err, wantErr), false
			}
			g := prep.get(ctx, key)
			if wantErr == "" {
				if !g.Found || !bytes.Equal(g.Val, newVal) {
					return fail("put-effect", "path %s: after Put(%+v) Get = %v, want value %q", pn, c.Opt, g, newVal), false
				}
				switch c.Opt.Exp {
				case "":
					if g.TTL != 0 {
						return fail("put-ttl-not-cleared", "path %s: plain Put(%+v) on %s key left ttl %d", pn, c.Opt, c.Prior, g.TTL), false
					}
				case "EX", "PX":
					if !ttlInWindow(g.TTL, r.Inv, r.Ret, c.Opt.Ms, 2) {
						return fail("put-ttl:"+c.Opt.Cond+c.Opt.Exp, "path %s: after Put(%+v) ttl = %d, want within [%d, %d]", pn, c.Opt, g.TTL, r.Inv/1e6+c.Opt.Ms, r.Ret/1e6+c.Opt.Ms), false
					}
				default:
					want := r.Inv/1e6 + c.Opt.Ms
					if g.TTL < want-2 || g.TTL > want+2 {
						return fail("put-ttl:"+c.Opt.Cond+c.Opt.Exp, "path %s: after Put(%+v) ttl = %d, want %d", pn, c.Opt, g.TTL, want), false
					}
				}
			} else {
				// failed conditional put changes nothing
				if present && (!g.Found || !bytes.Equal(g.Val, oldVal) || g.TTL != priorTTL) {
					return fail("failed-put-effect", "path %s: failed Put(%+v) changed the entry: %v", pn, c.Opt, g), false
				}
				if !present && g.Found {
					return fail("failed-put-effect", "path %s: failed Put(%+v) made the key visible: %v", pn, c.Opt, g), false
				}
			}
		case "expire":
			r := pc.expire(ctx, key, c.Ms, c.UseP)
			wantErr := ""
			if !present {
				wantErr = "notfound"
			}
			if r.Err != wantErr {
				return fail("expire-result:"+c.Prior, "path %s: Expire on %s key returned %q, want %q", pn, c.Prior, r.Err, wantErr), false
			}
			g := prep.get(ctx, key)
			if present {
				if !g.Found || !bytes.Equal(g.Val, oldVal) {
					return fail("expire-value", "path %s: after Expire Get = %v, want the untouched value %q", pn, g, oldVal), false
				}
				if !ttlInWindow(g.TTL, r.Inv, r.Ret, c.Ms, 2) {
					return fail("expire-ttl", "path %s: after Expire(%dms) ttl = %d, want within [%d,%d]", pn, c.Ms, g.TTL, r.Inv/1e6+c.Ms, r.Ret/1e6+c.Ms), false
				}
			} else if g.Found {
				return fail("expire-revives", "path %s: Expire on %s key made it visible: %v", pn, c.Prior, g), false
			}
		case "getput":
			r := pc.getput(ctx, key, newVal)
			if r.Err != "" {
				return fail("getput-result", "path %s: GetPut on %s key failed: %s", pn, c.Prior, r.Err), false
			}
			if present != r.Found || (present && !bytes.Equal(r.Val, oldVal)) {
				return fail("getput-old:"+c.Prior, "path %s: GetPut on %s key returned %v, want found=%v old=%q", pn, c.Prior, r, present, oldVal), false
			}
			g := prep.get(ctx, key)
			if !g.Found || !bytes.Equal(g.Val, newVal) || g.TTL != 0 {
				return fail("getput-effect", "path %s: after GetPut Get = %v, want %q without ttl", pn, g, newVal), false
			}
		case "incr", "decr":
			r := pc.incr(ctx, key, c.Delta, c.Op == "decr")
			base := 0
			if present {
				base = 40
			}
			want := base + c.Delta
			if c.Op == "decr" {
				want = base - c.Delta
			}
			if r.Err != "" || r.Int != int64(want) {
				return fail("incr-result:"+c.Prior, "path %s: %s(%d) on %s key returned %v, want %d", pn, c.Op, c.Delta, c.Prior, r, want), false
			}
			g := prep.get(ctx, key)
			if !g.Found || string(g.Val) != strconv.Itoa(want) {
				return fail("incr-effect", "path %s: after %s Get = %v, want %d", pn, c.Op, g, want), false
			}
			if c.Prior == "presentttl" {
				// Incr re-stores the entry with its remaining life, measured when it read the entry: the expiry may
				// move by the time the operation itself took (microseconds on an idle machine), not more
				slack := (r.Ret-r.Inv)/1e6 + 3
				if g.TTL < priorTTL-slack || g.TTL > priorTTL+slack {
					return fail("incr-ttl", "path %s: %s changed the ttl from %d to %d", pn, c.Op, priorTTL, g.TTL), false
				}
			} else if g.TTL != 0 {
				return fail("incr-ttl", "path %s: %s on a key without ttl left ttl %d", pn, c.Op, g.TTL), false
			}
		case "incrbyfloat":
			r := pc.incrByFloat(ctx, key, 0.25)
			want := 0.25
			if present {
				want = 1.75
			}
			if r.Err != "" || r.F != want {
				return fail("incrbyfloat-result:"+c.Prior, "path %s: IncrByFloat on %s key returned %v, want %v", pn, c.Prior, r, want), false
			}
			g := prep.get(ctx, key)
			if f, err := strconv.ParseFloat(string(g.Val), 64); !g.Found || err != nil || f != want {
				return fail("incrbyfloat-effect", "path %s: after IncrByFloat Get = %v, want %v", pn, g, want), false
			}
		case "lock":
			r := pc.lock(ctx, key, c.Ms, 30)
			if present {
				if r.Err != "locknotacquired" {
					return fail("lock-result:"+c.Prior, "path %s: Lock on a held key returned %v, want lock-not-acquired", pn, r), false
				}
				if (r.Ret-r.Inv)/1e6 < 29 {
					return fail("lock-deadline", "path %s: Lock failed after %d ms, before its 30 ms deadline", pn, (r.Ret-r.Inv)/1e6), false
				}
				g := prep.get(ctx, key)
				if !g.Found || !bytes.Equal(g.Val, oldVal) {
					return fail("lock-effect", "path %s: failed Lock changed the entry: %v", pn, g), false
				}
				continue
			}
			if r.Err != "" || len(r.Token) == 0 {
				return fail("lock-result:"+c.Prior, "path %s: Lock on %s key returned %v", pn, c.Prior, r), false
			}
			g := prep.get(ctx, key)
			if !g.Found || !bytes.Equal(g.Val, r.Token) {
				return fail("lock-effect", "path %s: after Lock the stored token is %v, returned %x", pn, g, r.Token), false
			}
			if c.Ms == 0 {
				if g.TTL != 0 {
					return fail("lock-ttl", "path %s: Lock without timeout stored ttl %d", pn, g.TTL), false
				}
			} else if !ttlInWindow(g.TTL, r.Inv, r.Ret, c.Ms, 2) {
				return fail("lock-ttl", "path %s: LockWithTimeout(%dms) stored ttl %d, want within [%d,%d]", pn, c.Ms, g.TTL, r.Inv/1e6+c.Ms, r.Ret/1e6+c.Ms), false
			}
			switch c.After {
			case "unlock":
				if u := pc.unlock(ctx, key, r.Token); u.Err != "" {
					return fail("unlock-result", "path %s: Unlock with the right token returned %s", pn, u.Err), false
				}
				if g := prep.get(ctx, key); g.Err != "notfound" {
					return fail("unlock-effect", "path %s: after Unlock Get = %v", pn, g), false
				}
			case "lease":
				l := pc.lease(ctx, key, r.Token, 6500)
				if l.Err != "" {
					return fail("lease-result", "path %s: Lease with the right token returned %s", pn, l.Err), false
				}
				g := prep.get(ctx, key)
				if !g.Found || !bytes.Equal(g.Val, r.Token) {
					return fail("lease-value", "path %s: after Lease the stored token is %v, want %x", pn, g, r.Token), false
				}
				if !ttlInWindow(g.TTL, l.Inv, l.Ret, 6500, 2) {
					return fail("lease-ttl", "path %s: after Lease(6500ms) ttl = %d, want within [%d,%d]", pn, g.TTL, l.Inv/1e6+6500, l.Ret/1e6+6500), false
				}
			}
		}
	}
	return nil, false
}

func runC15Delete(ctx context.Context, c *c15Case, cl *vCluster, name string, paths []int) (*vcommon.Violation, bool) {
	fail := func(class, format string, args ...interface{}) *vcommon.Violation {
		return vcommon.NewViolation("C15", "paths", class, c, format, args...)
	}
	prep := &pathClient{cl: cl, dmap: name, path: pOwnerEmb}
	counts := map[int]int64{}
	for _, path := range paths {
		pc := &pathClient{cl: cl, dmap: name, path: path, pick: c.Pick, batch: true}
		var keys []string
		for i := 0; i < c.NKeys; i++ {
			key := fmt.Sprintf("d-%d-%d", path, i)
			keys = append(keys, key)
			if i >= c.Missing {
				if r := prep.put(ctx, key, []byte("x"), putOpt{}); r.Err != "" {
					return fail("prepare", "prepare put failed: %s", r.Err), false
				}
			}
		}
		r := pc.del(ctx, keys...)
		if r.Err != "" {
			return fail("delete-result", "path %s: Delete(%d keys) failed: %s", pathNames[path], len(keys), r.Err), false
		}
		counts[path] = r.Int
		for _, key := range keys {
			for _, m := range cl.live() {
				dm, err := m.emb.NewDMap(name)
				if err != nil {
					return nil, true
				}
				_, err = dm.Get(ctx, key)
				if errClass(err) != "notfound" {
					return fail("delete-effect", "path %s: after Delete(%v) key %q read from %s gives err=%v", pathNames[path], keys, key, m.name, err), false
				}
			}
		}
		if c.Missing == 0 && r.Int != int64(len(keys)) {
			return fail("delete-count", "path %s: Delete of %d existing keys returned %d", pathNames[path], len(keys), r.Int), false
		}
	}
	for _, path := range paths[1:] {
		if counts[path] != counts[paths[0]] {
			return fail("delete-count", "Delete(%d keys, %d missing) returned %d through %s and %d through %s", c.NKeys, c.Missing, counts[paths[0]], pathNames[paths[0]], counts[path], pathNames[path]), false
		}
	}
	return nil, false
}

func TestVerifC15(t *testing.T) {
	p := vcommon.Env()
	t.Cleanup(shutdownPool)
	if p.Replay != "" {
		v, err := vcommon.LoadViolation(p.Replay)
		if err != nil {
			t.Fatal(err)
		}
		c := &c15Case{}
		if err := json.Unmarshal(v.Case, c); err != nil {
			t.Fatal(err)
		}
		for i := 0; i < 3; i++ {
			got, _ := runC15(c)
			if got != nil {
				path := vcommon.SaveViolation(got)
				fmt.Printf("VERIF-VIOLATION %s %s\n", path, got.Message)
				t.Fatalf("replay still fails: %s", got.Message)
			}
		}
		return
	}
	col := vcommon.NewCollector("C15", "paths")
	t.Cleanup(col.Flush)
	rapid.Check(t, func(rt *rapid.T) {
		c := genC15(rt)
		v, inc := runC15(c)
		if inc || (v != nil && transportNoise(v.Message)) {
			col.Inconclusive()
			return
		}
		col.Record(vcommon.MustJSON(c), c15Nontrivial(c), "op:"+c.Op, "prior:"+c.Prior, fmt.Sprintf("members:%d", c.Opts.Members), fmt.Sprintf("replicas:%d", c.Opts.Replicas))
		if v != nil {
			vcommon.SaveViolation(v)
			rt.Fatalf("%s", v.Message)
		}
	})
}
