package olric

// Native fuzz target for C16 (thorough tier): bytes are decoded into an argument
// vector (command chosen from the registered ones, arguments from the token alphabet
// or raw bytes) and handed to the real multiplexer of a member of this process.

import (
	"fmt"
	"strings"
	"sync"
	"testing"

	"github.com/olric-data/olric/internal/zzverif/vcommon"
)

var (
	c16FuzzOnce   sync.Once
	c16FuzzRunner *c16Runner
	c16FuzzValid  [][]string
)

func c16FuzzSetup() {
	opts := vOpts{Members: 1, Replicas: 1, Partitions: 7, TableSize: 4096}
	cl, err := pooledCluster(opts)
	if err != nil {
		return
	}
	r := &c16Runner{opts: opts, m: cl.live()[0], all: cl.live(), col: vcommon.NewCollector("C16", "fuzz"), part: "rapid", hungCmds: map[string]bool{}, classes: map[string]bool{}}
	r.startWorker()
	rawEntry, move, route, coord := c16Payloads(r.m)
	c16FuzzValid = c16ValidCommands(rawEntry, move, route, coord)
	c16FuzzRunner = r
}

func decodeC16(data []byte) []string {
	if len(data) < 2 || len(c16FuzzValid) == 0 {
		return nil
	}
	base := c16FuzzValid[int(data[0])%len(c16FuzzValid)]
	if base[0] == "internal.node.updaterouting" {
		base = c16FuzzValid[0]
	}
	keep := 1 + int(data[1])%len(base)
	args := append([]string(nil), base[:keep]...)
	if data[1]&0x80 != 0 {
		args[0] = strings.ToUpper(args[0])
	}
	rest := data[2:]
	for len(rest) > 0 && len(args) < 14 {
		b := rest[0]
		rest = rest[1:]
		if b < 200 {
			args = append(args, c16Tokens[int(b)%len(c16Tokens)])
			continue
		}
		n := int(b-200) % 24
		if n > len(rest) {
			n = len(rest)
		}
		args = append(args, string(rest[:n]))
		rest = rest[n:]
	}
	return args
}

func FuzzVerifC16(f *testing.F) {
	f.Add([]byte{0, 3, 3, 16})     // dm.put d k v EX 0
	f.Add([]byte{17, 3, 8, 9, 16}) // dm.scan 0 d 0 MATCH COUNT 0
	f.Add([]byte{13, 3, 4, 205, 'a', 'b', 'c', 'd', 'e'})
	f.Add([]byte{2, 1, 26, 11})
	f.Fuzz(func(t *testing.T, data []byte) {
		c16FuzzOnce.Do(c16FuzzSetup)
		r := c16FuzzRunner
		if r == nil {
			t.Skip("no member")
		}
		args := decodeC16(data)
		if args == nil {
			return
		}
		before := len(r.viols)
		r.run(args)
		if len(r.viols) > before {
			v := r.viols[len(r.viols)-1]
			fmt.Printf("VERIF-VIOLATION %s\n", v.Message)
			t.Fatalf("%s", v.Message)
		}
	})
}
