package olric

// C19: Destroy removes one DMap everywhere and DMaps never interfere.

import (
	"context"
	"encoding/json"
	"fmt"
	"sort"
	"strconv"
	"strings"
	"testing"
	"time"

	"github.com/olric-data/olric/internal/cluster/partitions"
	"github.com/olric-data/olric/internal/zzverif/vcommon"
	"pgregory.net/rapid"
)

type c19Op struct {
	Op   string `json:"op"` // put get del expire incr getput lock unlock scan destroy
	D    int    `json:"d"`  // DMap index
	K    int    `json:"k"`  // key index
	Path int    `json:"path"`
	Pick int    `json:"pick,omitempty"`
}

type c19Case struct {
	Opts vOpts `json:"opts"`
	// LeaveAt >= 0: a private cluster; after that many operations one member leaves gracefully (R = 2,
	// so nothing is lost): the survivors then host primary and backup copies of the same partitions
	LeaveAt int      `json:"leave_at"`
	Names   []string `json:"names"`
	Keys    []string `json:"keys"`
	Ops     []c19Op  `json:"ops"`
}

// name/key sets whose concatenations coincide: ("ab","c") / ("a","bc"), ("a.b","c") / ("a",".bc"), identical keys everywhere
var c19NameSets = [][]string{{"ab", "a"}, {"ab", "a", "abc"}, {"a.b", "a"}, {"dmap.a", "a"}, {"x", "xx", "xxx"}}
var c19KeySets = [][]string{{"c", "bc", "k"}, {"c", "bc", ".bc", "b.c"}, {"x", "xx", "k"}, {"c", "bc", "abc"}}

func genC19(t *rapid.T) *c19Case {
	c := &c19Case{}
	c.Opts.Members = rapid.IntRange(1, 3).Draw(t, "members")
	c.Opts.Replicas = rapid.IntRange(1, 2).Draw(t, "replicas")
	if c.Opts.Replicas > c.Opts.Members {
		c.Opts.Replicas = c.Opts.Members
	}
	c.Opts.Partitions = rapid.SampledFrom([]int{7, 13}).Draw(t, "partitions")
	c.Opts.TableSize = rapid.SampledFrom([]int{0, 1024}).Draw(t, "tableSize")
	c.Names = rapid.SampledFrom(c19NameSets).Draw(t, "names")
	c.Keys = rapid.SampledFrom(c19KeySets).Draw(t, "keys")
	c.LeaveAt = -1
	if c.Opts.Members >= 2 && rapid.IntRange(0, 3).Draw(t, "leave") == 0 {
		c.Opts.Replicas = 2
		c.Opts.FastDetect = true
		// no background routing push / balancer / janitor: after the leave the fragments stay where they are, so
		// that Destroy meets the state a leave produces and not a fragment move in flight (that race is the
		// finding recorded under C02)
		c.Opts.Stepped = true
	}
	n := rapid.IntRange(5, 40).Draw(t, "nops")
	if c.Opts.FastDetect {
		c.LeaveAt = rapid.IntRange(2, n-1).Draw(t, "leaveAt")
	}
	kinds := []string{"put", "put", "put", "get", "get", "del", "expire", "incr", "getput", "lock", "unlock", "scan", "destroy", "evict"}
	for i := 0; i < n; i++ {
		op := c19Op{Op: rapid.SampledFrom(kinds).Draw(t, "op")}
		if c.LeaveAt >= 0 && i >= c.LeaveAt {
			// what the variant is for: Destroy (and reads) in the state a leave produces
			op.Op = rapid.SampledFrom([]string{"destroy", "destroy", "scan", "get"}).Draw(t, "opAfterLeave")
		}
		op.D = rapid.IntRange(0, len(c.Names)-1).Draw(t, "d")
		op.K = rapid.IntRange(0, len(c.Keys)-1).Draw(t, "k")
		op.Path = rapid.IntRange(1, 6).Draw(t, "path")
		op.Pick = rapid.IntRange(0, 2).Draw(t, "pick")
		c.Ops = append(c.Ops, op)
	}
	return c
}

func scanAll(ctx context.Context, dm DMap, count int) ([]string, error) {
	var opts []ScanOption
	if count > 0 {
		opts = append(opts, Count(count))
	}
	it, err := dm.Scan(ctx, opts...)
	if err != nil {
		return nil, err
	}
	defer it.Close()
	var keys []string
	for guard := 0; it.Next(); guard++ {
		keys = append(keys, it.Key())
		if guard > 100000 {
			return keys, fmt.Errorf("iterator does not terminate")
		}
	}
	sort.Strings(keys)
	return keys, nil
}

func runC19(c *c19Case) (v *vcommon.Violation, nontrivial, inconclusive bool) {
	var cl *vCluster
	var err error
	if c.LeaveAt >= 0 {
		cl, err = vNewCluster(c.Opts)
		if err == nil {
			defer cl.shutdown()
		}
	} else {
		cl, err = pooledCluster(c.Opts)
	}
	if err != nil {
		return nil, false, true
	}
	ctx, cancel := context.WithTimeout(context.Background(), 60*time.Second)
	defer cancel()
	// a per-case suffix keeps cases independent while the concatenations still collide:
	// ("ab"+sfx, "c") never equals ("a"+sfx, "bc"), so the suffix goes in FRONT of the name.
	// (the prefix starts with letters that also occur in the fragment prefix "dmap.": names of any shape are legal)
	sfx := freshName([]string{"z", "m", "a.", "dm"}[len(c.Ops)%4])
	names := make([]string, len(c.Names))
	for i, n := range c.Names {
		names[i] = sfx + n
	}
	models := make([]map[string]string, len(names))
	tokens := make([]map[string][]byte, len(names))
	for i := range models {
		models[i] = map[string]string{}
		tokens[i] = map[string][]byte{}
	}
	afterLeave := false
	for i, op := range c.Ops {
		if c.LeaveAt == i && len(cl.live()) >= 2 {
			cl.stop(cl.live()[len(cl.live())-1])
			if err := cl.waitSettled(20 * time.Second); err != nil {
				return nil, nontrivial, true
			}
			// The routing table is settled, the data is not: fragments are still handed over in the background,
			// and until the new primary owner's own former backup fragment has moved a key may be invisible.
			// What survives a stop is C02's subject. Here the variant only needs the state a leave produces, so
			// it waits until every DMap reads as its model says (and gives the case up if that does not happen).
			if co := cl.coordinator(); co != nil {
				co.db.rt.UpdateEagerly()
				if err := cl.waitSettled(20 * time.Second); err != nil {
					return nil, nontrivial, true
				}
			}
			afterLeave = true
			readsOK := c.Opts.Stepped // stepped members: nothing moves, nothing to wait for (reads are not issued below)
			for dl := time.Now().Add(6 * time.Second); !readsOK && time.Now().Before(dl); {
				readsOK = true
				for d2, name2 := range names {
					chk := &pathClient{cl: cl, dmap: name2, path: pCluster}
					for _, k2 := range c.Keys {
						g := chk.get(ctx, k2)
						want, ok := models[d2][k2]
						if ok && (g.Err != "" || string(g.Val) != want) || !ok && g.Err != "notfound" {
							readsOK = false
						}
					}
				}
				if !readsOK {
					time.Sleep(100 * time.Millisecond)
				}
			}
			if !readsOK {
				return nil, nontrivial, true
			}
		}
		if afterLeave && c.Opts.Stepped && (op.Op == "get" || (op.Op == "scan" && len(models[op.D]) > 0)) {
			// without a balancer a key whose primary owner left stays on its backup copy; what Get and Scan make of
			// that is C02's and C12's business. A scan of a DMap that was destroyed after the leave is kept: it must
			// be empty.
			continue
		}
		if c.LeaveAt >= 0 && i >= c.LeaveAt && op.Op != "destroy" && op.Op != "scan" && op.Op != "get" {
			// After the leave only Destroy, scans and reads are issued: writes and deletes that race with the
			// hand-over of fragments after a stop belong to C02 (two findings are recorded there), not to the
			// separation of DMaps.
			continue
		}
		if c.LeaveAt >= 0 && i >= c.LeaveAt && (op.Op == "lock" || op.Op == "unlock" || op.Op == "expire") {
			// After a failover a key may live on its backup copy only. Reads find it there, but the conditions of
			// NX / XX / Expire / Lock are evaluated on the (empty) primary copy of the new owner. The listed
			// properties promise healthy behaviour after a failure for plain Put, Get and Delete only (C02), so
			// these operations are not part of this variant (observation recorded in DESIGN.md 14.6).
			continue
		}
		name := names[op.D]
		key := c.Keys[op.K]
		m := models[op.D]
		pc := &pathClient{cl: cl, dmap: name, path: op.Path, pick: op.Pick}
		bad := func(class, format string, args ...interface{}) *vcommon.Violation {
			cut := *c
			cut.Ops = c.Ops[:i+1]
			v := vcommon.NewViolation("C19", "dmaps", class, &cut, format, args...)
			v.Message = fmt.Sprintf("step %d %s on (%q,%q) via %s: %s", i, op.Op, c.Names[op.D], key, pathNames[op.Path], v.Message)
			return v
		}
		// the colliding key is held by another DMap too?
		for d2 := range names {
			if d2 != op.D {
				for k2 := range models[d2] {
					if c.Names[d2]+k2 == c.Names[op.D]+key || k2 == key {
						if _, ok := m[key]; ok && (op.Op == "destroy" || op.Op == "del" || op.Op == "lock" || op.Op == "incr") {
							nontrivial = true
						}
					}
				}
			}
		}
		old, had := m[key]
		var r vRes
		val := strconv.Itoa(1000 + i)
		switch op.Op {
		case "put":
			r = pc.put(ctx, key, []byte(val), putOpt{})
			if r.Err != "" {
				return bad("put", "Put failed: %s", r.Err), nontrivial, strings.HasPrefix(r.Err, "other:")
			}
			m[key] = val
		case "get":
			r = pc.get(ctx, key)
			if had && (r.Err != "" || string(r.Val) != old) {
				return bad("get", "Get returned %s, this DMap's model holds %q", r.String(), old), nontrivial, false
			}
			if !had && r.Err != "notfound" {
				return bad("get-foreign", "Get returned %s for a key this DMap never stored (another DMap may hold it)", r.String()), nontrivial, false
			}
		case "del":
			r = pc.del(ctx, key)
			if r.Err != "" {
				return bad("del", "Delete failed: %s", r.Err), nontrivial, false
			}
			delete(m, key)
		case "expire":
			r = pc.expire(ctx, key, 600000, false)
			if had && r.Err != "" || !had && r.Err != "notfound" {
				return bad("expire", "Expire returned %q, key present in this DMap: %v", r.Err, had), nontrivial, false
			}
		case "incr":
			if had && tokens[op.D][key] != nil {
				continue // a lock token is not a number
			}
			r = pc.incr(ctx, key, 3, false)
			base := 0
			if had {
				base, _ = strconv.Atoi(old)
			}
			if r.Err != "" || r.Int != int64(base+3) {
				return bad("incr", "Incr(3) returned %s, this DMap's model holds %q", r.String(), old), nontrivial, false
			}
			m[key] = strconv.Itoa(base + 3)
		case "getput":
			r = pc.getput(ctx, key, []byte(val))
			if r.Err != "" || r.Found != had || (had && string(r.Val) != old) {
				return bad("getput", "GetPut returned %s, this DMap's model holds %q (present %v)", r.String(), old, had), nontrivial, false
			}
			m[key] = val
			delete(tokens[op.D], key)
		case "lock":
			r = pc.lock(ctx, key, 0, 5)
			if had {
				if r.Err != "locknotacquired" {
					return bad("lock", "Lock on a key present in this DMap returned %s", r.String()), nontrivial, false
				}
			} else {
				if r.Err != "" {
					return bad("lock-foreign", "Lock on a key absent from this DMap failed: %s (another DMap may hold the same key)", r.Err), nontrivial, false
				}
				m[key] = string(r.Token)
				tokens[op.D][key] = r.Token
			}
		case "unlock":
			tok := tokens[op.D][key]
			if tok == nil {
				continue
			}
			r = pc.unlock(ctx, key, tok)
			if had && old == string(tok) {
				if r.Err != "" {
					return bad("unlock", "Unlock with the stored token failed: %s", r.Err), nontrivial, false
				}
				delete(m, key)
			} else if r.Err != "nosuchlock" {
				return bad("unlock", "Unlock with a token that is no longer stored returned %q", r.Err), nontrivial, false
			}
			delete(tokens[op.D], key)
		case "evict":
			// background eviction: the key is stored with a 1 ms ttl, the owner's eviction scan runs over its
			// fragment; the key disappears from every copy of THIS DMap, and (checked below) no other DMap changes
			if r := pc.put(ctx, key, []byte("soon-gone"), putOpt{Exp: "PX", Ms: 1}); r.Err != "" {
				return nil, nontrivial, true
			}
			time.Sleep(4 * time.Millisecond)
			cl.ownerOf(name, key).db.dmap.VerifEvict(name, key)
			delete(m, key)
			delete(tokens[op.D], key)
			for _, mem := range cl.live() {
				for _, kind := range []partitions.Kind{partitions.PRIMARY, partitions.BACKUP} {
					if mem.db.dmap.VerifCheck(name, key, kind) {
						// expired, so not observable - but the eviction scan has just removed the owner's copy and
						// is to remove the other copies of this DMap's key with it
						if !cl.ownerOf(name, key).db.dmap.VerifCheck(name, key, partitions.PRIMARY) {
							return bad("evict-leftover", "the eviction scan removed the expired key from its owner, but member %s still stores it in its %s fragment of this DMap", mem.name, kind), nontrivial, false
						}
					}
				}
			}
			nontrivial = true
		case "scan":
			dm, err := pc.dm(key)
			if err != nil {
				return nil, nontrivial, true
			}
			got, err := scanAll(ctx, dm, []int{0, 1, 2, 100}[op.Pick%4+0])
			if err != nil {
				return bad("scan", "Scan failed: %v", err), nontrivial, false
			}
			var want []string
			for k := range m {
				want = append(want, k)
			}
			sort.Strings(want)
			if strings.Join(got, "\x00") != strings.Join(want, "\x00") {
				return bad("scan", "Scan yielded %q, this DMap's model holds %q", got, want), nontrivial, false
			}
		case "destroy":
			dm, err := pc.dm(key)
			if err != nil {
				return nil, nontrivial, true
			}
			if err := dm.Destroy(ctx); err != nil {
				return bad("destroy", "Destroy failed: %v", err), nontrivial, strings.HasPrefix(errClass(err), "other:")
			}
			// white box: no member holds an entry of the destroyed DMap, primary or backup
			for _, mem := range cl.live() {
				for partID := uint64(0); partID < uint64(c.Opts.Partitions); partID++ {
					for _, kind := range []partitions.Kind{partitions.PRIMARY, partitions.BACKUP} {
						if keys := mem.db.dmap.VerifKeys(name, partID, kind); len(keys) != 0 {
							return bad("destroy-leftover", "after Destroy member %s still stores %q in %s partition %d", mem.name, keys, kind, partID), nontrivial, false
						}
					}
				}
			}
			// every key reads not-found from every member
			for k := range m {
				for _, mem := range cl.live() {
					edm, err := mem.emb.NewDMap(name)
					if err != nil {
						return nil, nontrivial, true
					}
					if _, err := edm.Get(ctx, k); errClass(err) != "notfound" {
						return bad("destroy-readable", "after Destroy key %q still reads (err=%v) from %s", k, err, mem.name), nontrivial, false
					}
				}
			}
			if len(m) > 0 {
				nontrivial = true
			}
			models[op.D] = map[string]string{}
			tokens[op.D] = map[string][]byte{}
		}
		if afterLeave && c.Opts.Stepped {
			// white box instead of reads (see above): an operation on one DMap must not make the copies of another
			// DMap's keys disappear
			for d2, name2 := range names {
				if d2 == op.D {
					continue
				}
				for k2 := range models[d2] {
					n := 0
					for _, mem := range cl.live() {
						if mem.db.dmap.VerifCheck(name2, k2, partitions.PRIMARY) || mem.db.dmap.VerifCheck(name2, k2, partitions.BACKUP) {
							n++
						}
					}
					if n == 0 {
						return bad("interference:"+op.Op, "afterwards no member stores a copy of DMap %q key %q any more; its model holds %q", c.Names[d2], k2, models[d2][k2]), nontrivial, false
					}
				}
			}
			continue
		}
		// after every step: every other DMap still holds exactly its model (read through the owner)
		for d2, name2 := range names {
			if d2 == op.D && op.Op != "destroy" {
				continue
			}
			chk := &pathClient{cl: cl, dmap: name2, path: pOwnerEmb}
			for _, k2 := range c.Keys {
				g := chk.get(ctx, k2)
				want, ok := models[d2][k2]
				if ok && (g.Err != "" || string(g.Val) != want) {
					return bad("interference:"+op.Op, "afterwards DMap %q key %q reads %s, its model holds %q", c.Names[d2], k2, g.String(), want), nontrivial, false
				}
				if !ok && g.Err != "notfound" {
					return bad("interference:"+op.Op, "afterwards DMap %q key %q reads %s although it is absent from that DMap", c.Names[d2], k2, g.String()), nontrivial, false
				}
			}
		}
	}
	return nil, nontrivial, false
}

func TestVerifC19(t *testing.T) {
	p := vcommon.Env()
	t.Cleanup(shutdownPool)
	if p.Replay != "" {
		v, err := vcommon.LoadViolation(p.Replay)
		if err != nil {
			t.Fatal(err)
		}
		c := &c19Case{}
		if err := json.Unmarshal(v.Case, c); err != nil {
			t.Fatal(err)
		}
		for i := 0; i < 3; i++ {
			got, _, _ := runC19(c)
			if got != nil {
				path := vcommon.SaveViolation(got)
				fmt.Printf("VERIF-VIOLATION %s %s\n", path, got.Message)
				t.Fatalf("replay still fails: %s", got.Message)
			}
		}
		return
	}
	col := vcommon.NewCollector("C19", "dmaps")
	t.Cleanup(col.Flush)
	rapid.Check(t, func(rt *rapid.T) {
		c := genC19(rt)
		v, nt, inc := runC19(c)
		if inc || (v != nil && transportNoise(v.Message)) {
			col.Inconclusive()
			return
		}
		col.Record(vcommon.MustJSON(c), nt, fmt.Sprintf("members:%d", c.Opts.Members), fmt.Sprintf("replicas:%d", c.Opts.Replicas))
		if v != nil {
			if vcommon.Known(v.Class) {
				col.ExcludedKnown()
				return
			}
			vcommon.SaveViolation(v)
			rt.Fatalf("%s", v.Message)
		}
	})
}
