package olric

// C20 (DMap level): storage stays bounded under churn, on primaries and on backups.

import (
	"context"
	"encoding/json"
	"fmt"
	"testing"
	"time"

	"github.com/olric-data/olric/internal/cluster/partitions"
	"github.com/olric-data/olric/internal/zzverif/vcommon"
	"pgregory.net/rapid"
)

type c20dCase struct {
	Opts     vOpts  `json:"opts"`
	Keys     int    `json:"keys"`
	Sizes    []int  `json:"sizes"`
	Rounds   int    `json:"rounds"`
	PerRound int    `json:"per_round"`
	Seed     uint64 `json:"seed"`
	DelPct   int    `json:"del_pct"`
	TTLPct   int    `json:"ttl_pct"`
}

func genC20d(t *rapid.T, thorough bool) *c20dCase {
	c := &c20dCase{}
	c.Opts.Members = rapid.IntRange(1, 2).Draw(t, "members")
	c.Opts.Replicas = rapid.IntRange(1, 2).Draw(t, "replicas")
	if c.Opts.Replicas > c.Opts.Members {
		c.Opts.Replicas = c.Opts.Members
	}
	c.Opts.Partitions = rapid.SampledFrom([]int{3, 7}).Draw(t, "partitions")
	c.Opts.TableSize = rapid.SampledFrom([]int{512, 1024, 2048}).Draw(t, "tableSize")
	c.Keys = rapid.IntRange(5, 40).Draw(t, "keys")
	maxv := c.Opts.TableSize/4 - 60
	ns := rapid.IntRange(1, 3).Draw(t, "nsizes")
	for i := 0; i < ns; i++ {
		c.Sizes = append(c.Sizes, rapid.IntRange(1, maxv).Draw(t, "size"))
	}
	c.Rounds = rapid.IntRange(3, 8).Draw(t, "rounds")
	hi := 300
	if thorough {
		hi = 3000
	}
	c.PerRound = rapid.IntRange(30, hi).Draw(t, "perRound")
	c.Seed = rapid.Uint64().Draw(t, "seed")
	c.DelPct = rapid.SampledFrom([]int{0, 10, 30}).Draw(t, "delPct")
	c.TTLPct = rapid.SampledFrom([]int{0, 0, 8}).Draw(t, "ttlPct")
	return c
}

type vsplitmix struct{ x uint64 }

func (s *vsplitmix) next() uint64 {
	s.x += 0x9e3779b97f4a7c15
	z := s.x
	z = (z ^ (z >> 30)) * 0xbf58476d1ce4e5b9
	z = (z ^ (z >> 27)) * 0x94d049bb133111eb
	return z ^ (z >> 31)
}

func runC20d(c *c20dCase) (v *vcommon.Violation, nontrivial, inconclusive bool) {
	cl, err := pooledCluster(c.Opts)
	if err != nil {
		return nil, false, true
	}
	ctx, cancel := context.WithTimeout(context.Background(), 120*time.Second)
	defer cancel()
	name := freshName("c20-")
	fail := func(class, format string, args ...interface{}) *vcommon.Violation {
		return vcommon.NewViolation("C20", "dmap", class, c, format, args...)
	}
	P := uint64(c.Opts.Partitions)
	S := c.Opts.TableSize
	keyOf := func(i int) string { return fmt.Sprintf("key-%04d", i) }
	partOf := func(k string) uint64 { return partitions.HKey(name, k) % P }
	emax := 0
	for _, sz := range c.Sizes {
		if n := sz + 29 + 8; n > emax {
			emax = n
		}
	}
	live := map[int]int{}      // key -> encoded size of the stored entry
	expiring := map[int]bool{} // stored with a 1 ms ttl: background eviction may remove it at any time
	peak := map[uint64]int{}
	rng := &vsplitmix{x: c.Seed}
	// emptied tables stay allocated (recycled, reused by the next makeTable) until their idle timeout, so the
	// table count is governed by the largest amount written between two compaction runs so far
	maxRoundBytes := map[uint64]int{}
	for round := 0; round < c.Rounds; round++ {
		roundBytes := map[uint64]int{}
		for j := 0; j < c.PerRound; j++ {
			k := int(rng.next() % uint64(c.Keys))
			key := keyOf(k)
			pc := &pathClient{cl: cl, dmap: name, path: []int{pOwnerEmb, pCluster, pOtherEmb}[j%3], pick: j}
			p := int(rng.next() % 100)
			switch {
			case p < c.DelPct:
				if r := pc.del(ctx, key); r.Err != "" {
					return nil, nontrivial, true
				}
				delete(live, k)
				delete(expiring, k)
			default:
				val := make([]byte, c.Sizes[int(rng.next()%uint64(len(c.Sizes)))])
				o := putOpt{}
				if p < c.DelPct+c.TTLPct {
					o = putOpt{Exp: "PX", Ms: 1}
				}
				if r := pc.put(ctx, key, val, o); r.Err != "" {
					return nil, nontrivial, true
				}
				live[k] = len(key) + len(val) + 29
				roundBytes[partOf(key)] += live[k]
				delete(expiring, k)
				if o.Exp != "" {
					expiring[k] = true
				}
			}
			perPart := map[uint64]int{}
			for kk, n := range live {
				perPart[partOf(keyOf(kk))] += n
			}
			for pp, n := range perPart {
				if n > peak[pp] {
					peak[pp] = n
				}
			}
		}
		// the compaction worker's own routine, for every partition on every member
		done := make(chan struct{})
		go func() {
			for _, m := range cl.live() {
				for p := uint64(0); p < P; p++ {
					m.db.dmap.VerifDoCompaction(p)
				}
			}
			close(done)
		}()
		select {
		case <-done:
		case <-time.After(30 * time.Second):
			return fail("compaction-no-progress", "round %d: the compaction routine did not complete within 30 s", round), nontrivial, false
		}
		wantAll, wantSure := map[uint64]int{}, map[uint64]int{}
		for kk, n := range live {
			p := partOf(keyOf(kk))
			wantAll[p] += n
			if !expiring[kk] {
				wantSure[p] += n
			}
		}
		den := int(0.6*float64(S)) - emax
		for p, n := range roundBytes {
			if n > maxRoundBytes[p] {
				maxRoundBytes[p] = n
			}
		}
		// a key stored with a 1 ms ttl may be removed by background eviction at any moment, also between the
		// compaction run above and the reading of the statistics below
		expiringPart := map[uint64]bool{}
		for kk := range expiring {
			expiringPart[partOf(keyOf(kk))] = true
		}
		for _, m := range cl.live() {
			for p := uint64(0); p < P; p++ {
				for _, kind := range []partitions.Kind{partitions.PRIMARY, partitions.BACKUP} {
					st, ok := m.db.dmap.VerifFragmentStats(name, p, kind)
					if !ok {
						continue
					}
					if kind == partitions.BACKUP {
						nontrivial = true
					}
					where := fmt.Sprintf("round %d, %s fragment of partition %d on %s", round, kind, p, m.name)
					if st.Inuse > wantAll[p] || st.Inuse < wantSure[p] {
						return fail("inuse-accounting:"+kind.String(), "%s: Inuse = %d, live entries occupy %d bytes (%d without entries that may have been evicted); garbage %d, tables %d", where, st.Inuse, wantAll[p], wantSure[p], st.Garbage, st.NumTables), nontrivial, false
					}
					// closed survivors + tables opened by this round's writes + tables opened while compaction
					// moves the live entries, plus one each for rounding and the table being written
					maxTables := (peak[p]+den-1)/den + (maxRoundBytes[p]+(S-emax)-1)/(S-emax) + (peak[p]+(S-emax)-1)/(S-emax) + 4
					if st.NumTables > maxTables {
						return fail("unbounded-tables:"+kind.String(), "%s: %d tables (%d bytes) allocated for %d live bytes (peak %d, at most %d bytes written in one round); bound %d tables", where, st.NumTables, st.Allocated, st.Inuse, peak[p], maxRoundBytes[p], maxTables), nontrivial, false
					}
					// garbage that background eviction produced after the compaction run: compaction has to
					// bring it down again (it "keeps making progress until the ratio is below the threshold")
					for try := 0; try < 3 && expiringPart[p] && st.Allocated > 0 && float64(st.Garbage) >= 0.4*float64(st.Allocated); try++ {
						m.db.dmap.VerifDoCompaction(p)
						if st2, ok := m.db.dmap.VerifFragmentStats(name, p, kind); ok {
							st = st2
						}
					}
					// after completed compaction the fragment as a whole is below the garbage threshold by a wide margin:
					// every table is below 40 %, so the sum is below 40 % of the allocation
					if float64(st.Garbage) >= 0.4*float64(st.Allocated) && st.Allocated > 0 {
						return fail("garbage-above-threshold:"+kind.String(), "%s: garbage %d of %d allocated bytes after compaction completed", where, st.Garbage, st.Allocated), nontrivial, false
					}
				}
			}
		}
	}
	return nil, nontrivial, false
}

func TestVerifC20DMap(t *testing.T) {
	p := vcommon.Env()
	t.Cleanup(shutdownPool)
	if p.Replay != "" {
		v, err := vcommon.LoadViolation(p.Replay)
		if err != nil {
			t.Fatal(err)
		}
		c := &c20dCase{}
		if err := json.Unmarshal(v.Case, c); err != nil {
			t.Fatal(err)
		}
		for i := 0; i < 2; i++ {
			got, _, _ := runC20d(c)
			if got != nil {
				path := vcommon.SaveViolation(got)
				fmt.Printf("VERIF-VIOLATION %s %s\n", path, got.Message)
				t.Fatalf("replay still fails: %s", got.Message)
			}
		}
		return
	}
	col := vcommon.NewCollector("C20", "dmap")
	t.Cleanup(col.Flush)
	rapid.Check(t, func(rt *rapid.T) {
		c := genC20d(rt, p.Thorough())
		v, nt, inc := runC20d(c)
		if inc || (v != nil && vFlapsSinceMark() > 0) {
			col.Inconclusive()
			return
		}
		col.Record(vcommon.MustJSON(c), nt, fmt.Sprintf("replicas:%d", c.Opts.Replicas))
		if v != nil {
			if vcommon.Known(v.Class) {
				col.ExcludedKnown()
				return
			}
			vcommon.SaveViolation(v)
			rt.Fatalf("%s", v.Message)
		}
	})
}
