package olric

// rtMembers returns how many members the routing table of a member knows. CLUSTER.MEMBERS is answered
// from this map, which is filled by cluster events after the gossip layer already counts the member.
func rtMembers(db *Olric) int {
	ms := db.rt.Members()
	ms.RLock()
	defer ms.RUnlock()
	return ms.Length()
}
