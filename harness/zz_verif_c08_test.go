package olric

// C08: distributed lock: mutual exclusion, token safety and timeout behaviour.

import (
	"bytes"
	"context"
	"encoding/json"
	"fmt"
	"strings"
	"sync"
	"testing"
	"time"

	"github.com/olric-data/olric/internal/cluster/partitions"
	"github.com/olric-data/olric/internal/verifhook"
	"github.com/olric-data/olric/internal/zzverif/vcommon"
	"pgregory.net/rapid"
)

type c08Locker struct {
	Path     int    `json:"path"`
	Pick     int    `json:"pick"`
	Timeout  int64  `json:"timeout_ms"` // 0 = no timeout
	Deadline int64  `json:"deadline_ms"`
	Hold     int64  `json:"hold_ms"`
	Action   string `json:"action"` // unlock lease abandon
	LeaseMs  int64  `json:"lease_ms,omitempty"`
	StartMs  int64  `json:"start_ms"` // delay before the attempt
}

type c08Step struct {
	Op      string `json:"op"` // lock unlock unlockforged unlockstale unlocktwice lease leaseforged leasestale waitexpire
	Path    int    `json:"path"`
	Pick    int    `json:"pick"`
	Timeout int64  `json:"timeout_ms,omitempty"`
	Ms      int64  `json:"ms,omitempty"`
}

type c08Case struct {
	Opts    vOpts       `json:"opts"`
	Kind    string      `json:"kind"` // contend | script
	YieldUs int         `json:"yield_us,omitempty"`
	Lockers []c08Locker `json:"lockers,omitempty"`
	Steps   []c08Step   `json:"steps,omitempty"`
}

type c08Event struct {
	Who    int    `json:"who"`
	Op     string `json:"op"`
	Path   int    `json:"path"`
	Err    string `json:"err,omitempty"`
	Inv    int64  `json:"inv"`
	Ret    int64  `json:"ret"`
	Token  string `json:"token,omitempty"`
	HoldLo int64  `json:"hold_from,omitempty"`
	HoldHi int64  `json:"hold_to,omitempty"`
	// how the holder gave the lock up (contend): "unlock" / "lease" with the call's window and outcome, "" = abandoned
	RelOp  string `json:"rel_op,omitempty"`
	RelInv int64  `json:"rel_inv,omitempty"`
	RelRet int64  `json:"rel_ret,omitempty"`
	RelErr string `json:"rel_err,omitempty"`
}

func genC08(t *rapid.T, kind string) *c08Case {
	c := &c08Case{Kind: kind}
	c.Opts.Members = rapid.IntRange(1, 3).Draw(t, "members")
	c.Opts.Replicas = rapid.IntRange(1, 2).Draw(t, "replicas")
	if c.Opts.Replicas > c.Opts.Members {
		c.Opts.Replicas = c.Opts.Members
	}
	c.Opts.Partitions = 7
	if kind == "contend" {
		c.YieldUs = rapid.SampledFrom([]int{0, 200}).Draw(t, "yield")
		n := rapid.IntRange(2, 6).Draw(t, "lockers")
		for i := 0; i < n; i++ {
			l := c08Locker{Path: rapid.IntRange(1, 5).Draw(t, "path"), Pick: rapid.IntRange(0, 2).Draw(t, "pick")}
			l.Timeout = rapid.SampledFrom([]int64{0, 0, 50, 120, 300}).Draw(t, "timeout")
			l.Deadline = rapid.SampledFrom([]int64{0, 20, 100, 250}).Draw(t, "deadline")
			l.Hold = rapid.SampledFrom([]int64{0, 10, 40, 90}).Draw(t, "hold")
			l.Action = rapid.SampledFrom([]string{"unlock", "unlock", "lease", "abandon"}).Draw(t, "action")
			l.LeaseMs = rapid.SampledFrom([]int64{40, 150}).Draw(t, "lease")
			l.StartMs = rapid.SampledFrom([]int64{0, 0, 15, 60}).Draw(t, "start")
			c.Lockers = append(c.Lockers, l)
		}
		return c
	}
	n := rapid.IntRange(3, 10).Draw(t, "steps")
	ops := []string{"lock", "lock", "unlock", "unlockforged", "unlockstale", "unlocktwice", "lease", "leaseforged", "leasestale", "waitexpire", "leaserace"}
	for i := 0; i < n; i++ {
		s := c08Step{Op: rapid.SampledFrom(ops).Draw(t, "op"), Path: rapid.IntRange(1, 5).Draw(t, "path"), Pick: rapid.IntRange(0, 2).Draw(t, "pick")}
		if i == 0 {
			s.Op = "lock"
		}
		switch s.Op {
		case "lock":
			s.Timeout = rapid.SampledFrom([]int64{0, 60, 150}).Draw(t, "timeout")
		case "lease":
			s.Ms = rapid.SampledFrom([]int64{60, 200}).Draw(t, "ms")
		case "leaseforged", "leasestale":
			s.Ms = 5000
		}
		c.Steps = append(c.Steps, s)
	}
	return c
}

const c08Guard = int64(3 * time.Millisecond)

func runC08(c *c08Case) (v *vcommon.Violation, nontrivial, inconclusive bool) {
	cl, err := pooledCluster(c.Opts)
	if err != nil {
		return nil, false, true
	}
	ctx, cancel := context.WithTimeout(context.Background(), 60*time.Second)
	defer cancel()
	name := freshName("c08-")
	key := "the-lock"
	var hist []c08Event
	fail := func(class, format string, args ...interface{}) *vcommon.Violation {
		v := vcommon.NewViolation("C08", c.Kind, class, c, format, args...)
		v.History = vcommon.MustJSON(hist)
		return v
	}
	isOtherPath := func(p, pick int) bool {
		pc := &pathClient{cl: cl, dmap: name, path: p, pick: pick}
		e := pc.effectivePath(key)
		return e == pOtherEmb || e == pOtherRaw
	}
	if c.Kind == "contend" {
		if c.YieldUs > 0 {
			d := time.Duration(c.YieldUs) * time.Microsecond
			verifhook.Set("put.afterCheck", func(args ...string) { time.Sleep(d) })
			defer verifhook.Set("put.afterCheck", nil)
		}
		var mu sync.Mutex
		var wg sync.WaitGroup
		start := make(chan struct{})
		for i, l := range c.Lockers {
			wg.Add(1)
			go func(i int, l c08Locker) {
				defer wg.Done()
				pc := &pathClient{cl: cl, dmap: name, path: l.Path, pick: l.Pick}
				<-start
				time.Sleep(time.Duration(l.StartMs) * time.Millisecond)
				r := pc.lock(ctx, key, l.Timeout, l.Deadline)
				ev := c08Event{Who: i, Op: "lock", Path: l.Path, Err: r.Err, Inv: r.Inv, Ret: r.Ret, Token: fmt.Sprintf("%x", r.Token)}
				if r.Err != "" {
					mu.Lock()
					hist = append(hist, ev)
					mu.Unlock()
					return
				}
				ev.HoldLo = r.Ret
				expiry := int64(1) << 62
				if l.Timeout > 0 {
					expiry = r.Inv + l.Timeout*1e6 - c08Guard
				}
				time.Sleep(time.Duration(l.Hold) * time.Millisecond)
				var after []c08Event
				switch l.Action {
				case "unlock":
					u := pc.unlock(ctx, key, r.Token)
					after = append(after, c08Event{Who: i, Op: "unlock", Path: l.Path, Err: u.Err, Inv: u.Inv, Ret: u.Ret})
					ev.HoldHi = min64(u.Inv, expiry)
					ev.RelOp, ev.RelInv, ev.RelRet, ev.RelErr = "unlock", u.Inv, u.Ret, u.Err
				case "lease":
					le := pc.lease(ctx, key, r.Token, l.LeaseMs)
					after = append(after, c08Event{Who: i, Op: "lease", Path: l.Path, Err: le.Err, Inv: le.Inv, Ret: le.Ret})
					ev.HoldHi = min64(le.Inv, expiry)
					ev.RelOp, ev.RelInv, ev.RelRet, ev.RelErr = "lease", le.Inv, le.Ret, le.Err
					if le.Err == "" {
						// held without interruption until the new expiry
						ev.HoldHi = le.Inv + l.LeaseMs*1e6 - c08Guard
						if ev.HoldHi < le.Inv {
							ev.HoldHi = le.Inv
						}
					}
				default:
					ev.HoldHi = expiry
				}
				mu.Lock()
				hist = append(hist, ev)
				hist = append(hist, after...)
				mu.Unlock()
			}(i, l)
		}
		close(start)
		wg.Wait()
		end := time.Now().UnixNano()
		var locks []c08Event
		for _, ev := range hist {
			if strings.HasPrefix(ev.Err, "other:") {
				return nil, false, true
			}
			if ev.Op != "lock" {
				continue
			}
			l := c.Lockers[ev.Who]
			if ev.Err != "" {
				if ev.Err != "locknotacquired" {
					return fail("lock-error", "Lock through %s failed with %s", pathNames[ev.Path], ev.Err), nontrivial, false
				}
				if ev.Ret-ev.Inv < l.Deadline*1e6-int64(time.Millisecond) {
					return fail("early-give-up", "Lock through %s gave up after %.2f ms, before its deadline of %d ms", pathNames[ev.Path], float64(ev.Ret-ev.Inv)/1e6, l.Deadline), nontrivial, false
				}
				continue
			}
			if ev.HoldHi > end {
				ev.HoldHi = end
			}
			locks = append(locks, ev)
		}
		// A Lock that was invoked while another client certainly held the lock was granted after that hold had
		// ended, so its own timeout runs from there, not from its invocation ("released automatically no earlier
		// than that timeout" counts from the moment the lock was taken). One level of refinement, from the
		// conservative intervals computed above.
		first := append([]c08Event(nil), locks...)
		for i := range locks {
			b := &locks[i]
			l := c.Lockers[b.Who]
			if l.Timeout == 0 {
				continue
			}
			from := b.Inv
			for _, a := range first {
				if a.Who != b.Who && a.HoldLo < a.HoldHi && a.HoldLo <= b.Inv && b.Inv <= a.HoldHi && a.HoldHi > from {
					from = a.HoldHi
				}
			}
			if from == b.Inv {
				continue
			}
			expiry := from + l.Timeout*1e6 - c08Guard
			switch {
			case b.RelOp == "":
				b.HoldHi = expiry
			case b.RelOp == "lease" && b.RelErr == "":
				// already "until the new expiry"
			default:
				b.HoldHi = min64(b.RelInv, expiry)
			}
			if b.HoldHi > end {
				b.HoldHi = end
			}
			// the holder's own Unlock / Lease, completed while its lock certainly had not expired, cannot be refused
			if b.RelOp != "" && b.RelErr != "" && !strings.HasPrefix(b.RelErr, "other:") && b.RelRet < expiry {
				return fail("holder-refused", "locker %d (%s) took the lock (timeout %d ms) after %.2f ms of waiting for locker(s) before it; its own %s, finished %.2f ms before the earliest possible expiry, failed with %s", b.Who, pathNames[b.Path], l.Timeout, float64(from-b.Inv)/1e6, b.RelOp, float64(expiry-b.RelRet)/1e6, b.RelErr), true, false
			}
		}
		for i := range locks {
			for j := i + 1; j < len(locks); j++ {
				a, b := locks[i], locks[j]
				if a.HoldLo < a.HoldHi && b.HoldLo < b.HoldHi && a.HoldLo < b.HoldHi && b.HoldLo < a.HoldHi {
					return fail("two-holders", "lockers %d (%s) and %d (%s) certainly held the lock at the same time: [%d,%d] and [%d,%d] (ns)", a.Who, pathNames[a.Path], b.Who, pathNames[b.Path], a.HoldLo, a.HoldHi, b.HoldLo, b.HoldHi), nontrivial, false
				}
			}
		}
		// overlap of attempts = non-trivial
		for i := range hist {
			for j := range hist {
				if hist[i].Op == "lock" && hist[j].Op == "lock" && hist[i].Who != hist[j].Who && hist[i].Inv < hist[j].Ret && hist[j].Inv < hist[i].Ret {
					nontrivial = true
				}
			}
		}
		return nil, nontrivial, false
	}

	// script: sequential adversarial steps against a model of the lock
	owner := cl.ownerOf(name, key)
	type holder struct {
		token  []byte
		lo, hi int64 // expiry window in unix ns; hi == 0: no timeout
	}
	var cur *holder
	var stale [][]byte
	readRaw := func() rawCopy { return decodeCopy(owner.db.dmap.VerifRaw(name, key, partitions.PRIMARY)) }
	now := func() int64 { return time.Now().UnixNano() }
	certainlyHeld := func(at int64) bool { return cur != nil && (cur.hi == 0 || at < cur.lo-c08Guard) }
	certainlyFree := func(at int64) bool { return cur == nil || (cur.hi != 0 && at > cur.hi+c08Guard) }
	for i, s := range c.Steps {
		pc := &pathClient{cl: cl, dmap: name, path: s.Path, pick: s.Pick}
		ev := c08Event{Who: i, Op: s.Op, Path: s.Path}
		record := func(r vRes) {
			ev.Err, ev.Inv, ev.Ret = r.Err, r.Inv, r.Ret
			hist = append(hist, ev)
		}
		bad := func(class, format string, args ...interface{}) *vcommon.Violation {
			cut := *c
			cut.Steps = c.Steps[:i+1]
			v := vcommon.NewViolation("C08", c.Kind, class, &cut, format, args...)
			v.Message = fmt.Sprintf("step %d %s via %s: %s", i, s.Op, pathNames[s.Path], v.Message)
			v.History = vcommon.MustJSON(hist)
			return v
		}
		switch s.Op {
		case "lock":
			r := pc.lock(ctx, key, s.Timeout, 20)
			record(r)
			// held during the whole attempt / free when the attempt began
			heldBefore := certainlyHeld(r.Ret)
			freeBefore := certainlyFree(r.Inv)
			if strings.HasPrefix(r.Err, "other:") {
				return nil, nontrivial, true
			}
			if s.Timeout > 0 && isOtherPath(s.Path, s.Pick) {
				nontrivial = true
			}
			switch {
			case r.Err == "":
				if heldBefore {
					return bad("acquired-held-lock", "Lock succeeded although the lock is held (holder token %x, expiry window [%d,%d])", cur.token, cur.lo, cur.hi), nontrivial, false
				}
				if cur != nil {
					stale = append(stale, cur.token)
				}
				cur = &holder{token: r.Token}
				if s.Timeout > 0 {
					cur.lo, cur.hi = r.Inv+s.Timeout*1e6, r.Ret+s.Timeout*1e6
				}
				raw := readRaw()
				if !certainlyHeld(now()) {
					// the call was so slow that the new lock may already have expired: nothing to assert
					break
				}
				if !raw.present || !bytes.Equal(raw.value, r.Token) {
					return bad("token-not-stored", "after Lock the owner stores %v, returned token %x", raw, r.Token), nontrivial, false
				}
				if s.Timeout == 0 && raw.ttl != 0 {
					return bad("lock-ttl", "Lock without timeout stored ttl %d", raw.ttl), nontrivial, false
				}
				if s.Timeout > 0 && (raw.ttl < cur.lo/1e6-2 || raw.ttl > cur.hi/1e6+2) {
					return bad("lock-ttl", "LockWithTimeout(%d ms) stored ttl %d, want within [%d,%d]", s.Timeout, raw.ttl, cur.lo/1e6, cur.hi/1e6), nontrivial, false
				}
			case r.Err == "locknotacquired":
				if freeBefore {
					return bad("free-lock-not-acquired", "Lock failed although the lock is free (previous holder expired or unlocked)"), nontrivial, false
				}
				if r.Ret-r.Inv < 19*int64(time.Millisecond) {
					return bad("early-give-up", "Lock gave up after %.2f ms, before its 20 ms deadline", float64(r.Ret-r.Inv)/1e6), nontrivial, false
				}
			default:
				return bad("lock-error", "Lock failed with %s", r.Err), nontrivial, false
			}
		case "unlock", "unlocktwice":
			if cur == nil {
				continue
			}
			r := pc.unlock(ctx, key, cur.token)
			record(r)
			held := certainlyHeld(r.Ret)
			if strings.HasPrefix(r.Err, "other:") {
				return nil, nontrivial, true
			}
			if held && r.Err != "" {
				return bad("unlock-right-token", "Unlock with the holder's token failed: %s", r.Err), nontrivial, false
			}
			if r.Err != "" && r.Err != "nosuchlock" {
				return bad("unlock-error", "Unlock failed with %s", r.Err), nontrivial, false
			}
			tok := cur.token
			stale = append(stale, tok)
			cur = nil
			if raw := readRaw(); raw.present && bytes.Equal(raw.value, tok) && (raw.ttl == 0 || raw.ttl > time.Now().UnixMilli()+2) && r.Err == "" {
				return bad("unlock-effect", "after a successful Unlock the owner still stores the token: %v", raw), nontrivial, false
			}
			if s.Op == "unlocktwice" {
				r2 := pc.unlock(ctx, key, tok)
				if r2.Err != "nosuchlock" {
					return bad("unlock-twice", "second Unlock with the same token returned %q, want no-such-lock", r2.Err), nontrivial, false
				}
			}
		case "unlockforged", "unlockstale", "leaseforged", "leasestale":
			tok := []byte{0xde, 0xad, 0xbe, 0xef, 1, 2, 3, 4, 5, 6, 7, 8, 9, 10, 11, 12}
			if strings.HasSuffix(s.Op, "stale") {
				if len(stale) == 0 {
					continue
				}
				tok = stale[len(stale)-1]
				if cur != nil {
					nontrivial = true
				}
			}
			before := readRaw()
			var r vRes
			if strings.HasPrefix(s.Op, "unlock") {
				r = pc.unlock(ctx, key, tok)
			} else {
				r = pc.lease(ctx, key, tok, s.Ms)
			}
			record(r)
			if strings.HasPrefix(r.Err, "other:") {
				return nil, nontrivial, true
			}
			if r.Err != "nosuchlock" {
				return bad("wrong-token-accepted", "%s with a token that is not the holder's returned %q, want no-such-lock (stored %v)", s.Op, r.Err, before), nontrivial, false
			}
			after := readRaw()
			stillValid := before.present && (before.ttl == 0 || before.ttl > time.Now().UnixMilli()+5)
			if stillValid && !after.equal(before) {
				return bad("wrong-token-effect", "%s with a wrong token changed the stored lock from %v to %v", s.Op, before, after), nontrivial, false
			}
		case "lease":
			if cur == nil {
				continue
			}
			r := pc.lease(ctx, key, cur.token, s.Ms)
			record(r)
			held := certainlyHeld(r.Ret)
			if strings.HasPrefix(r.Err, "other:") {
				return nil, nontrivial, true
			}
			if held && r.Err != "" {
				return bad("lease-right-token", "Lease with the holder's token failed: %s", r.Err), nontrivial, false
			}
			if r.Err == "" {
				cur.lo, cur.hi = r.Inv+s.Ms*1e6, r.Ret+s.Ms*1e6
				raw := readRaw()
				if !certainlyHeld(now()) {
					break
				}
				if !raw.present || !bytes.Equal(raw.value, cur.token) {
					return bad("lease-value", "after Lease the owner stores %v, want the token %x", raw, cur.token), nontrivial, false
				}
				if raw.ttl < cur.lo/1e6-2 || raw.ttl > cur.hi/1e6+2 {
					return bad("lease-ttl", "Lease(%d ms) stored ttl %d, want within [%d,%d]", s.Ms, raw.ttl, cur.lo/1e6, cur.hi/1e6), nontrivial, false
				}
			} else if r.Err != "nosuchlock" {
				return bad("lease-error", "Lease failed with %s", r.Err), nontrivial, false
			} else {
				stale = append(stale, cur.token)
				cur = nil
			}
		case "leaserace":
			// The holder's Lease has validated its token and is held there (hook lock.afterGet); the holder's Unlock
			// is issued meanwhile. Either the Unlock waits for the Lease (both then succeed, in that order), or it
			// overtakes it: then the lock is free, another client takes it without a timeout, and the Lease - whose
			// token is not the holder's any more - must fail with no-such-lock and leave the new holder's lock alone.
			if cur == nil || !certainlyHeld(now()+int64(400*time.Millisecond)) {
				continue
			}
			tok := cur.token
			gate, inLease := make(chan struct{}), make(chan struct{}, 1)
			var once sync.Once
			verifhook.Set("lock.afterGet", func(args ...string) {
				if len(args) >= 2 && args[1] == key {
					first := false
					once.Do(func() { first = true })
					if first {
						inLease <- struct{}{}
						<-gate
					}
				}
			})
			leaseRes := make(chan vRes, 1)
			// (a long lease: the holder's own Unlock, which follows it, must still find the lock on a slow machine)
			go func() { leaseRes <- pc.lease(ctx, key, tok, 5000) }()
			select {
			case <-inLease:
			case <-time.After(2 * time.Second):
				close(gate)
				<-leaseRes
				verifhook.Set("lock.afterGet", nil)
				return nil, nontrivial, true
			}
			unlockRes := make(chan vRes, 1)
			other := &pathClient{cl: cl, dmap: name, path: s.Path%5 + 1, pick: s.Pick + 1}
			go func() { unlockRes <- other.unlock(ctx, key, tok) }()
			var u vRes
			overtook := false
			select {
			case u = <-unlockRes:
				overtook = true
			case <-time.After(150 * time.Millisecond):
			}
			var b vRes
			if overtook && u.Err == "" {
				b = other.lock(ctx, key, 0, 20) // a new holder, without timeout
			}
			close(gate)
			l := <-leaseRes
			if !overtook {
				u = <-unlockRes
			}
			verifhook.Set("lock.afterGet", nil)
			record(l)
			if strings.HasPrefix(l.Err, "other:") || strings.HasPrefix(u.Err, "other:") || strings.HasPrefix(b.Err, "other:") {
				return nil, nontrivial, true
			}
			nontrivial = true
			stale = append(stale, tok)
			cur = nil
			if overtook && u.Err == "" {
				if l.Err != "nosuchlock" {
					return bad("lease-after-own-unlock", "the holder's Unlock completed while its Lease was in progress; the Lease, whose token was no longer the holder's, returned %q, want no-such-lock", l.Err), nontrivial, false
				}
				if b.Err == "" {
					cur = &holder{token: b.Token}
					if raw := readRaw(); !raw.present || !bytes.Equal(raw.value, b.Token) || raw.ttl != 0 {
						return bad("lease-changed-other-lock", "a lock taken without timeout after the previous holder's Unlock is stored as %v after that holder's late Lease", raw), nontrivial, false
					}
				}
			} else {
				// the Unlock waited for the Lease: both are the holder's own calls on a held lock
				if l.Err != "" {
					return bad("lease-right-token", "Lease with the holder's token failed: %s", l.Err), nontrivial, false
				}
				if u.Err != "" {
					return bad("unlock-right-token", "Unlock with the holder's token (after its Lease) failed: %s", u.Err), nontrivial, false
				}
			}
		case "waitexpire":
			if cur == nil || cur.hi == 0 {
				continue
			}
			if d := cur.hi + 2*c08Guard - now(); d > 0 {
				time.Sleep(time.Duration(d))
			}
		}
	}
	return nil, nontrivial, false
}

func min64(a, b int64) int64 {
	if a < b {
		return a
	}
	return b
}

func c08Test(t *testing.T, kind string) {
	p := vcommon.Env()
	t.Cleanup(shutdownPool)
	if p.Replay != "" {
		v, err := vcommon.LoadViolation(p.Replay)
		if err != nil {
			t.Fatal(err)
		}
		c := &c08Case{}
		if err := json.Unmarshal(v.Case, c); err != nil {
			t.Fatal(err)
		}
		if c.Kind != kind {
			return
		}
		for i := 0; i < 5; i++ {
			got, _, _ := runC08(c)
			if got != nil {
				path := vcommon.SaveViolation(got)
				fmt.Printf("VERIF-VIOLATION %s %s\n", path, got.Message)
				t.Fatalf("replay still fails: %s", got.Message)
			}
		}
		return
	}
	col := vcommon.NewCollector("C08", kind)
	t.Cleanup(col.Flush)
	rapid.Check(t, func(rt *rapid.T) {
		c := genC08(rt, kind)
		v, nt, inc := runC08(c)
		if inc || (v != nil && vFlapsSinceMark() > 0) {
			col.Inconclusive()
			return
		}
		col.Record(vcommon.MustJSON(c), nt, fmt.Sprintf("members:%d", c.Opts.Members))
		if v != nil {
			if vcommon.Known(v.Class) {
				col.ExcludedKnown()
				return
			}
			vcommon.SaveViolation(v)
			rt.Fatalf("%s", v.Message)
		}
	})
}

func TestVerifC08Contend(t *testing.T) { c08Test(t, "contend") }
func TestVerifC08Script(t *testing.T)  { c08Test(t, "script") }
