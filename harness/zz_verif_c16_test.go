package olric

// C16: no request can crash or wedge a member.
//
// In process: argument vectors are handed to the real command multiplexer of a
// real member with a recording connection, under recover() and a watchdog.

import (
	"context"
	"encoding/json"
	"fmt"
	"net"
	"runtime"
	"strings"
	"sync"
	"testing"
	"time"

	"github.com/olric-data/olric/internal/cluster/partitions"
	"github.com/olric-data/olric/internal/kvstore/entry"
	"github.com/olric-data/olric/internal/zzverif/vcommon"
	"github.com/tidwall/redcon"
	"github.com/vmihailenco/msgpack/v5"
	"pgregory.net/rapid"
)

// recConn records what a handler writes.
type recConn struct {
	mu       sync.Mutex
	writes   int
	errs     int
	last     string
	closed   bool
	detached bool
	ctx      interface{}
}

func (c *recConn) w(s string, isErr bool) {
	c.mu.Lock()
	c.writes++
	if isErr {
		c.errs++
	}
	if len(s) > 80 {
		s = s[:80]
	}
	c.last = s
	c.mu.Unlock()
}
func (c *recConn) RemoteAddr() string          { return "127.0.0.1:1" }
func (c *recConn) Close() error                { c.mu.Lock(); c.closed = true; c.mu.Unlock(); return nil }
func (c *recConn) WriteError(msg string)       { c.w("-"+msg, true) }
func (c *recConn) WriteString(str string)      { c.w("+"+str, false) }
func (c *recConn) WriteBulk(bulk []byte)       { c.w("$", false) }
func (c *recConn) WriteBulkString(bulk string) { c.w("$", false) }
func (c *recConn) WriteInt(num int)            { c.w(":", false) }
func (c *recConn) WriteInt64(num int64)        { c.w(":", false) }
func (c *recConn) WriteUint64(num uint64)      { c.w(":", false) }
func (c *recConn) WriteArray(count int)        { c.w("*", false) }
func (c *recConn) WriteNull()                  { c.w("_", false) }
func (c *recConn) WriteRaw(data []byte)        { c.w("raw", false) }
func (c *recConn) WriteAny(any interface{})    { c.w("any", false) }
func (c *recConn) Context() interface{}        { return c.ctx }
func (c *recConn) SetContext(v interface{})    { c.ctx = v }
func (c *recConn) SetReadBuffer(bytes int)     {}
func (c *recConn) Detach() redcon.DetachedConn { c.mu.Lock(); c.detached = true; c.mu.Unlock(); return nil }
func (c *recConn) ReadPipeline() []redcon.Command {
	return nil
}
func (c *recConn) PeekPipeline() []redcon.Command { return nil }
func (c *recConn) NetConn() net.Conn              { return nil }

type c16Vec struct {
	Args [][]byte `json:"args_b64"` // argv, argv[0] is the command name (base64: arguments are arbitrary bytes)
	Text []string `json:"text"`     // the same, quoted for reading
	Then [][]byte `json:"then_b64,omitempty"` // replay only: a second command executed right after, without wiping the DMaps
}

func mkVec(args []string) c16Vec {
	v := c16Vec{}
	for _, a := range args {
		v.Args = append(v.Args, []byte(a))
		q := fmt.Sprintf("%q", a)
		if len(q) > 60 {
			q = q[:40] + fmt.Sprintf("...(%d bytes)", len(a))
		}
		v.Text = append(v.Text, q)
	}
	return v
}

var c16Long = strings.Repeat("L", 300)

var c16Tokens = []string{"NX", "nx", "XX", "EX", "ex", "PX", "EXAT", "PXAT", "MATCH", "COUNT", "count", "RC", "RW", "LC", "CR",
	"", "0", "1", "-1", "0.5", "1e309", "NaN", "9223372036854775807", "18446744073709551616", "999999", "abc", "d", "k", "\x00\xfe\xff", c16Long, "deadbeef",
	// the smallest well-formed msgpack documents: payloads that decode and are rejected later
	"\x80", "\x90", "\xc0",
	// patterns that do not compile
	"[", "(?"}

// valid prefixes: a well-formed command to which option suffixes are appended
func c16ValidCommands(rawEntry, movePayload, routePayload string, coordID string) [][]string {
	return [][]string{
		{"dm.put", "d", "k", "v"}, {"dm.get", "d", "k"}, {"dm.getentry", "d", "k"}, {"dm.putentry", "d", "k", rawEntry},
		{"dm.del", "d", "k"}, {"dm.delentry", "d", "k"}, {"dm.expire", "d", "k", "1"}, {"dm.pexpire", "d", "k", "1"},
		{"dm.destroy", "d"}, {"dm.incr", "d", "k", "1"}, {"dm.decr", "d", "k", "1"}, {"dm.getput", "d", "k", "v"},
		{"dm.incrbyfloat", "d", "k", "1.5"}, {"dm.lock", "d", "k", "0.01"}, {"dm.unlock", "d", "k", "abcd"},
		{"dm.locklease", "d", "k", "abcd", "1"}, {"dm.plocklease", "d", "k", "abcd", "1"}, {"dm.scan", "0", "d", "0"},
		{"ping"}, {"stats"}, {"cluster.routingtable"}, {"cluster.members"}, {"internal.node.lengthofpart", "0"},
		{"internal.node.movefragment", movePayload}, {"internal.node.updaterouting", routePayload, coordID},
		{"publish", "ch", "msg"}, {"publish.internal", "ch", "msg"}, {"pubsub", "channels"}, {"pubsub", "numpat"}, {"pubsub", "numsub", "ch"},
	}
}

type c16Runner struct {
	m        *vMember
	col      *vcommon.Collector
	part     string
	work     chan []string
	done     chan *c16Out
	hungCmds map[string]bool
	hangs    int
	classes  map[string]bool
	viols    []*vcommon.Violation
	opts     vOpts
	dead     bool
	rebuilds int
	noReset  bool
	seedKeys []string
	all      []*vMember // every member of the cluster the vectors are sent to (m is the one that receives them)
}

type c16Out struct {
	panicVal interface{}
	frame    string
	writes   int
	errs     int
	detached bool
	last     string
}

func (r *c16Runner) startWorker() {
	r.work = make(chan []string)
	r.done = make(chan *c16Out, 1)
	work, done := r.work, r.done
	go func() {
		for args := range work {
			done <- r.serve(args)
		}
	}()
}

func (r *c16Runner) serve(args []string) (out *c16Out) {
	out = &c16Out{}
	conn := &recConn{}
	defer func() {
		if p := recover(); p != nil {
			out.panicVal = p
			out.frame = c16RepoFrame()
		}
		conn.mu.Lock()
		out.writes, out.errs, out.detached, out.last = conn.writes, conn.errs, conn.detached, conn.last
		conn.mu.Unlock()
	}()
	cmd := redcon.Command{}
	for _, a := range args {
		cmd.Args = append(cmd.Args, []byte(a))
	}
	r.m.db.server.VerifServeRESP(conn, cmd)
	return out
}

func c16RepoFrame() string {
	pcs := make([]uintptr, 64)
	n := runtime.Callers(3, pcs)
	frames := runtime.CallersFrames(pcs[:n])
	for {
		fr, more := frames.Next()
		if strings.Contains(fr.Function, "olric-data/olric") && !strings.Contains(fr.File, "zz_verif") {
			fn := fr.Function
			if i := strings.LastIndex(fn, "/"); i >= 0 {
				fn = fn[i+1:]
			}
			return fn
		}
		if !more {
			return "unknown"
		}
	}
}

func (r *c16Runner) report(class string, args []string, format string, a ...interface{}) {
	if r.classes[class] {
		return
	}
	r.classes[class] = true
	v := vcommon.NewViolation("C16", r.part, class, mkVec(args), format, a...)
	if strings.HasPrefix(class, "hang:") {
		// where everything stands: the stacks of all goroutines at the moment the handler was declared wedged
		buf := make([]byte, 1<<20)
		buf = buf[:runtime.Stack(buf, true)]
		var keep []string
		for _, g := range strings.Split(string(buf), "\n\n") {
			if strings.Contains(g, "olric/internal/") || strings.Contains(g, "olric.(") {
				if len(g) > 3000 {
					g = g[:3000]
				}
				keep = append(keep, g)
			}
			if len(keep) >= 60 {
				break
			}
		}
		v.History = vcommon.MustJSON(keep)
	}
	if vcommon.Known(class) {
		r.col.ExcludedKnown()
		return
	}
	vcommon.SaveViolation(v)
	r.viols = append(r.viols, v)
}

// run executes one vector. It returns false when the vector was skipped.
func (r *c16Runner) run(args []string) bool {
	name := strings.ToLower(args[0])
	if name == "pubsub" && len(args) > 1 {
		name += " " + strings.ToLower(args[1])
	}
	if name == "subscribe" || name == "psubscribe" {
		return false // these take the connection over; covered end to end
	}
	if r.hungCmds[name] || r.dead {
		r.col.Label("skipped-after-failure:"+name, 1)
		return false
	}
	// every vector meets the member twice: without any DMap, and with DMap "d" holding a few keys (among them "k"
	// and one in partition 0, the ones the well-formed prefixes name) - some handlers return early on an empty member
	r.runOnce(args, name, false)
	// (not DM.LOCK: on an occupied key it waits, as it should, for the deadline the vector itself names)
	if !r.noReset && !r.hungCmds[name] && !r.dead && name != "dm.lock" {
		r.runOnce(args, name, true)
		r.col.Label("state:populated", 1)
	}
	return true
}

func (r *c16Runner) populate() {
	P := uint64(r.opts.Partitions)
	if r.seedKeys == nil {
		r.seedKeys = []string{"k", "v", "x"}
		for j := 0; j < 2000; j++ {
			if cand := fmt.Sprintf("p0-%d", j); partitions.HKey("d", cand)%P == 0 {
				r.seedKeys = append(r.seedKeys, cand)
				break
			}
		}
	}
	for i, key := range r.seedKeys {
		// on the member that owns the key (the receiving member forwards to it)
		owner := r.m
		if len(r.all) > 1 {
			name := r.m.db.primary.PartitionByHKey(partitions.HKey("d", key)).Owner().String()
			for _, mm := range r.all {
				if mm.name == name {
					owner = mm
				}
			}
		}
		_ = owner.db.dmap.VerifPutEntry("d", key, partitions.PRIMARY, []byte("v"), 0, int64(1000+i))
	}
}

// resetAll wipes the DMaps of every member: a vector must not meet what earlier vectors left on the other member
// (a key that an earlier DM.PUT created there makes "DM.LOCK d k 999999" wait, as it should, for 999999 s)
func (r *c16Runner) resetAll() {
	if len(r.all) == 0 {
		r.m.db.dmap.VerifResetDMaps()
		return
	}
	for _, mm := range r.all {
		if mm.alive {
			mm.db.dmap.VerifResetDMaps()
		}
	}
}

func (r *c16Runner) runOnce(args []string, name string, populated bool) {
	if !r.noReset {
		r.resetAll()
		if populated {
			r.populate()
		}
	}
	r.work <- args
	timer := time.NewTimer(10 * time.Second)
	var out *c16Out
	select {
	case out = <-r.done:
		timer.Stop()
	case <-timer.C:
		r.hangs++
		r.hungCmds[name] = true
		r.report("hang:"+name, args, "the handler of %q did not return within 10 s for %q", name, args)
		r.startWorker() // the spinning goroutine cannot be stopped
		return
	}
	switch {
	case out.panicVal != nil:
		r.report("panic:"+out.frame, args, "panic in %s for %q: %v", out.frame, args, out.panicVal)
		r.col.Label("outcome:panic", 1)
		// a real member is dead now, and this one may hold locks the panicking code never released:
		// continue on a fresh member and leave this command alone for the rest of the shard
		r.hungCmds[name] = true
		r.rebuild()
	case out.writes == 0 && !out.detached:
		r.report("noreply:"+name, args, "the handler of %q returned without writing a reply for %q", name, args)
		r.col.Label("outcome:noreply", 1)
	case out.errs > 0:
		r.col.Label("outcome:error-reply", 1)
	default:
		r.col.Label("outcome:ok", 1)
	}
	// "... and keeps serving": on the populated member the seeded keys are read once more behind the vector. A
	// request that was answered but left something locked shows here (the next vector starts from wiped DMaps).
	if populated && out.panicVal == nil && len(r.seedKeys) > 0 && name != "dm.lock" {
		for _, k := range []string{r.seedKeys[0], r.seedKeys[len(r.seedKeys)-1]} {
			probe := []string{"dm.get", "d", k}
			r.work <- probe
			t2 := time.NewTimer(10 * time.Second)
			select {
			case <-r.done:
				t2.Stop()
			case <-t2.C:
				r.hangs++
				r.hungCmds[name] = true
				r.report("wedged-after:"+name, args, "after %q had been answered, a plain DM.GET of key %q of the same DMap did not return within 10 s", args, k)
				r.startWorker()
				r.rebuild()
				return
			}
		}
	}
}

func (r *c16Runner) rebuild() {
	vPoolMu.Lock()
	if cl, ok := vPool[r.opts.key()]; ok {
		cl.shutdown()
		delete(vPool, r.opts.key())
	}
	vPoolMu.Unlock()
	cl, err := pooledCluster(r.opts)
	if err != nil {
		r.dead = true
		return
	}
	r.m = cl.live()[0]
	r.all = cl.live()
	r.rebuilds++
}

func c16Payloads(m *vMember) (rawEntry, move, route, coord string) {
	e := entry.New()
	e.SetKey("k")
	e.SetValue([]byte("v"))
	e.SetTimestamp(time.Now().UnixNano())
	rawEntry = string(e.Encode())
	type fragmentPack struct {
		PartID  uint64
		Kind    int
		Name    string
		Payload []byte
	}
	b, _ := msgpack.Marshal(fragmentPack{PartID: 0, Kind: 1, Name: "d", Payload: []byte("x")})
	move = string(b)
	rb, _ := msgpack.Marshal(map[uint64]interface{}{})
	route = string(rb)
	coord = fmt.Sprintf("%d", m.db.rt.Discovery().GetCoordinator().ID)
	return
}

func c16Setup(t *testing.T, part string, members int) (*c16Runner, *vCluster) {
	opts := vOpts{Members: members, Replicas: members, Partitions: 7, TableSize: 4096}
	cl, err := pooledCluster(opts)
	if err != nil {
		t.Fatalf("inconclusive: %v", err)
	}
	r := &c16Runner{opts: opts, m: cl.live()[0], all: cl.live(), col: vcommon.NewCollector("C16", part), part: part, hungCmds: map[string]bool{}, classes: map[string]bool{}}
	r.startWorker()
	t.Cleanup(r.col.Flush)
	return r, cl
}

func (r *c16Runner) finish(t *testing.T, cl *vCluster) {
	// the member must still serve: a real connection, a real PING, and a normal write/read
	ctx, cancel := context.WithTimeout(context.Background(), 10*time.Second)
	defer cancel()
	if r.rebuilds > 0 || r.dead {
		cl = &vCluster{members: []*vMember{r.m}}
	}
	for _, m := range cl.live() {
		if err := m.rc.Ping(ctx).Err(); err != nil {
			r.report("dead-after-run", []string{"ping"}, "member %s does not answer PING after the run: %v", m.name, err)
		}
	}
	if len(r.viols) > 0 {
		for _, v := range r.viols {
			fmt.Printf("VERIF-VIOLATION %s\n", v.Message)
		}
		t.Fatalf("%d root causes", len(r.viols))
	}
}

// TestVerifC16Short: every argument vector of length <= 3 (command name + up to 3 tokens) for every command.
func TestVerifC16Short(t *testing.T) {
	p := vcommon.Env()
	if p.Replay != "" {
		c16Replay(t, p.Replay, "short")
		return
	}
	t.Cleanup(shutdownPool)
	r, cl := c16Setup(t, "short", 1)
	r.col.SetExhaustive()
	names := r.m.db.server.VerifCommands()
	var cmds [][]string
	for _, n := range names {
		cmds = append(cmds, strings.Split(n, " "))
		cmds = append(cmds, strings.Split(strings.ToUpper(n), " "))
	}
	cmds = append(cmds, []string{"nosuchcommand"}, []string{""}, []string{"pubsub"}, []string{"pubsub", "nosuch"})
	nt := len(c16Tokens)
	var idx int64
	for _, base := range cmds {
		for l := 0; l <= 3; l++ {
			total := 1
			for i := 0; i < l; i++ {
				total *= nt
			}
			for n := 0; n < total; n++ {
				idx++
				if int(idx%int64(p.Shards)) != p.Shard {
					continue
				}
				args := append([]string(nil), base...)
				x := n
				for i := 0; i < l; i++ {
					args = append(args, c16Tokens[x%nt])
					x /= nt
				}
				if r.run(args) {
					r.col.RecordEnumerated(true, func() []byte { return vcommon.MustJSON(mkVec(args)) })
				}
			}
		}
	}
	r.finish(t, cl)
}

// TestVerifC16Suffix: a valid command followed by every token suffix of length <= 3 (4 in thorough),
// and every single-position substitution / truncation of a valid command.
func TestVerifC16Suffix(t *testing.T) {
	p := vcommon.Env()
	if p.Replay != "" {
		c16Replay(t, p.Replay, "suffix")
		return
	}
	t.Cleanup(shutdownPool)
	r, cl := c16Setup(t, "suffix", 1)
	r.col.SetExhaustive()
	rawEntry, move, route, coord := c16Payloads(r.m)
	valid := c16ValidCommands(rawEntry, move, route, coord)
	nt := len(c16Tokens)
	maxLen := 3
	if p.Thorough() {
		maxLen = 4
	}
	var idx int64
	for _, base := range valid {
		// the routing-table update with a well-formed payload is the documented precondition for operability:
		// suffixes are appended to it, but the empty (= valid) form is not replayed over and over
		for l := 1; l <= maxLen; l++ {
			total := 1
			for i := 0; i < l; i++ {
				total *= nt
			}
			for n := 0; n < total; n++ {
				idx++
				if int(idx%int64(p.Shards)) != p.Shard {
					continue
				}
				args := append([]string(nil), base...)
				x := n
				for i := 0; i < l; i++ {
					args = append(args, c16Tokens[x%nt])
					x /= nt
				}
				if base[0] == "internal.node.updaterouting" {
					continue
				}
				if r.run(args) {
					r.col.RecordEnumerated(true, func() []byte { return vcommon.MustJSON(mkVec(args)) })
				}
			}
		}
		// substitutions and truncations
		for pos := 1; pos < len(base); pos++ {
			for _, tok := range c16Tokens {
				idx++
				if int(idx%int64(p.Shards)) != p.Shard {
					continue
				}
				args := append([]string(nil), base...)
				args[pos] = tok
				if base[0] == "internal.node.updaterouting" && pos == 2 {
					continue
				}
				if r.run(args) {
					r.col.RecordEnumerated(true, func() []byte { return vcommon.MustJSON(mkVec(args)) })
				}
			}
			idx++
			if int(idx%int64(p.Shards)) == p.Shard {
				args := append([]string(nil), base[:pos]...)
				if r.run(args) {
					r.col.RecordEnumerated(true, func() []byte { return vcommon.MustJSON(mkVec(args)) })
				}
			}
		}
	}
	r.finish(t, cl)
}

// TestVerifC16Rapid: longer random vectors, option keywords anywhere, on a two-member cluster (forwarding paths).
func TestVerifC16Rapid(t *testing.T) {
	p := vcommon.Env()
	if p.Replay != "" {
		c16Replay(t, p.Replay, "rapid")
		return
	}
	t.Cleanup(shutdownPool)
	r, cl := c16Setup(t, "rapid", 2)
	rawEntry, move, route, coord := c16Payloads(r.m)
	valid := c16ValidCommands(rawEntry, move, route, coord)
	rapid.Check(t, func(rt *rapid.T) {
		base := rapid.SampledFrom(valid).Draw(rt, "base")
		if base[0] == "internal.node.updaterouting" {
			base = valid[0]
		}
		args := append([]string(nil), base...)
		if rapid.Bool().Draw(rt, "upper") {
			args[0] = strings.ToUpper(args[0])
		}
		keep := rapid.IntRange(1, len(args)).Draw(rt, "keep")
		args = args[:keep]
		n := rapid.IntRange(0, 8).Draw(rt, "extra")
		for i := 0; i < n; i++ {
			if rapid.IntRange(0, 9).Draw(rt, "rawbytes") == 0 {
				args = append(args, string(rapid.SliceOfN(rapid.Byte(), 0, 40).Draw(rt, "bytes")))
			} else {
				args = append(args, rapid.SampledFrom(c16Tokens).Draw(rt, "tok"))
			}
		}
		if r.run(args) {
			r.col.Record(vcommon.MustJSON(mkVec(args)), true, "cmd:"+strings.ToLower(args[0]))
		}
		if len(r.viols) > 0 {
			rt.Fatalf("%s", r.viols[len(r.viols)-1].Message)
		}
	})
	r.finish(t, cl)
}

func c16Replay(t *testing.T, path, part string) {
	v, err := vcommon.LoadViolation(path)
	if err != nil {
		t.Fatal(err)
	}
	if v.Part != part {
		return
	}
	vec := &c16Vec{}
	if err := json.Unmarshal(v.Case, vec); err != nil {
		t.Fatal(err)
	}
	t.Cleanup(shutdownPool)
	members := 1
	if part == "rapid" {
		members = 2
	}
	r, cl := c16Setup(t, part, members)
	var args []string
	for _, a := range vec.Args {
		args = append(args, string(a))
	}
	r.run(args)
	if len(vec.Then) > 0 {
		var then []string
		for _, a := range vec.Then {
			then = append(then, string(a))
		}
		r.noReset = true
		r.run(then)
	}
	r.finish(t, cl)
}
