package olric

// Cluster builder, entry paths and result normalisation shared by the
// cluster-level checks (injected through the overlay).

import (
	"context"
	"errors"
	"fmt"
	"log"
	"net"
	"sort"
	"strconv"
	"strings"
	"os"
	"sync"
	"time"

	"github.com/hashicorp/memberlist"
	"github.com/olric-data/olric/config"
	"github.com/olric-data/olric/internal/cluster/partitions"
	"github.com/olric-data/olric/internal/discovery"
	"github.com/olric-data/olric/internal/testutil"
	"github.com/redis/go-redis/v9"
)

// vOpts is the configuration key of a cluster.
type vOpts struct {
	Members    int   `json:"members"`
	Replicas   int   `json:"replicas"`
	RQ         int   `json:"rq,omitempty"`
	WQ         int   `json:"wq,omitempty"`
	Partitions int   `json:"partitions"`
	TableSize  int   `json:"table_size,omitempty"`
	ReadRepair bool  `json:"read_repair,omitempty"`
	MCQ        int   `json:"mcq,omitempty"`
	FastDetect bool  `json:"fast_detect,omitempty"`
	NoJanitor  bool  `json:"no_janitor,omitempty"` // the periodic empty-fragment janitor is off: the harness runs the (single) janitor pass itself
	Stepped    bool  `json:"stepped,omitempty"`    // no periodic routing push / balancer / janitor / compaction: the harness invokes them as steps
	TTLms      int64 `json:"default_ttl_ms,omitempty"`
	MaxKeys    int   `json:"max_keys,omitempty"`
	MaxInuse   int   `json:"max_inuse,omitempty"`
	LRUSamples int   `json:"lru_samples,omitempty"`
	MaxIdleMs  int64 `json:"max_idle_ms,omitempty"`
	// The members' internal client (forwarding, replication). In the harness it does not re-send a request that
	// timed out: a re-sent Incr or GetPut is applied twice (recorded finding, C07 part retry), and on a loaded
	// machine that would hit every check at random. ClientRetries restores the default (3 re-sends),
	// ClientReadTimeoutMs replaces the default read timeout of 3 s.
	ClientRetries       bool  `json:"client_retries,omitempty"`
	ClientReadTimeoutMs int64 `json:"client_read_timeout_ms,omitempty"`
}

func (o vOpts) key() string { return fmt.Sprintf("%+v", o) }

type vMember struct {
	db     *Olric
	name   string // 127.0.0.1:port (RESP address)
	cfg    *config.Config
	emb    *EmbeddedClient
	rc     *redis.Client
	alive  bool
	killed bool
}

type vCluster struct {
	mu      sync.Mutex
	opts    vOpts
	members []*vMember
	cc      *ClusterClient
}

var errInconclusive = errors.New("inconclusive")

func vConfig(o vOpts) *config.Config {
	c := config.New("local")
	c.PartitionCount = uint64(o.Partitions)
	mc := memberlist.DefaultLocalConfig()
	mc.BindAddr = "127.0.0.1"
	mc.BindPort = 0
	if o.FastDetect {
		mc.ProbeInterval = 60 * time.Millisecond
		mc.ProbeTimeout = 40 * time.Millisecond
		mc.SuspicionMult = 1
		mc.SuspicionMaxTimeoutMult = 1
		mc.GossipInterval = 20 * time.Millisecond
		mc.RetransmitMult = 3
		mc.PushPullInterval = 500 * time.Millisecond
		mc.TCPTimeout = 300 * time.Millisecond
		mc.DeadNodeReclaimTime = time.Millisecond
		mc.GossipToTheDeadTime = 200 * time.Millisecond
	}
	c.MemberlistConfig = mc
	c.BindAddr = "127.0.0.1"
	c.LogOutput = vLogSink
	c.Logger = log.New(vLogSink, "", 0)
	// INFO at the default verbosity: the sink watches for "Node left" (see vLogSink); nothing is logged per operation
	c.LogLevel = "INFO"
	c.LogVerbosity = 3 // 3: failed replica writes / deletes are reported at this level (see vLogSink)
	c.LeaveTimeout = 300 * time.Millisecond
	c.ReplicaCount = o.Replicas
	c.ReadQuorum = o.RQ
	c.WriteQuorum = o.WQ
	if c.ReadQuorum == 0 {
		c.ReadQuorum = 1
	}
	if c.WriteQuorum == 0 {
		c.WriteQuorum = 1
	}
	if o.MCQ > 0 {
		c.MemberCountQuorum = int32(o.MCQ)
	}
	c.ReadRepair = o.ReadRepair
	c.Client = config.NewClient()
	c.Client.MaxRetries = -1
	if o.ClientRetries {
		c.Client.MaxRetries = 0 // Sanitize turns 0 into the default of 3
	}
	if o.ClientReadTimeoutMs > 0 {
		c.Client.ReadTimeout = time.Duration(o.ClientReadTimeoutMs) * time.Millisecond
	}
	c.BootstrapTimeout = 5 * time.Second
	c.JoinRetryInterval = 50 * time.Millisecond
	c.MaxJoinAttempts = 40
	c.RoutingTablePushInterval = 200 * time.Millisecond
	c.TriggerBalancerInterval = 100 * time.Millisecond
	c.DMaps = &config.DMaps{}
	c.DMaps.Engine = config.NewEngine()
	if o.TableSize > 0 {
		c.DMaps.Engine.Config["tableSize"] = o.TableSize
	}
	if o.TTLms > 0 {
		c.DMaps.TTLDuration = time.Duration(o.TTLms) * time.Millisecond
	}
	if o.MaxKeys > 0 || o.MaxInuse > 0 {
		c.DMaps.EvictionPolicy = config.LRUEviction
		c.DMaps.MaxKeys = o.MaxKeys
		c.DMaps.MaxInuse = o.MaxInuse
		c.DMaps.LRUSamples = o.LRUSamples
	}
	if o.MaxIdleMs > 0 {
		c.DMaps.MaxIdleDuration = time.Duration(o.MaxIdleMs) * time.Millisecond
	}
	// one background eviction worker (default: one per CPU) so that an expired
	// key usually stays "not yet evicted" for a while; explicit scans are harness steps
	c.DMaps.NumEvictionWorkers = 1
	c.DMaps.TriggerCompactionInterval = 150 * time.Millisecond
	c.DMaps.CheckEmptyFragmentsInterval = 200 * time.Millisecond
	if o.NoJanitor {
		c.DMaps.CheckEmptyFragmentsInterval = time.Hour
	}
	if o.Stepped {
		c.RoutingTablePushInterval = time.Hour
		c.TriggerBalancerInterval = time.Hour
		c.DMaps.TriggerCompactionInterval = time.Hour
		c.DMaps.CheckEmptyFragmentsInterval = time.Hour
	}
	return c
}

// Every harness cluster gossips under its own memberlist label. Gossip keeps going to a departed member's address
// for a while; on a busy machine that port may by then belong to a member of another cluster (of this or another
// test process), and without labels the two clusters would merge - foreign members in a routing table are an
// artifact of running many clusters on one host, not a behaviour of the code under test.
var vLabels = struct {
	sync.Mutex
	byAddr map[string]string
	n      int
}{byAddr: map[string]string{}}

// vLabelFor: the label of the cluster the peers belong to; a member without peers founds a cluster with a new label.
func vLabelFor(peers []string) string {
	vLabels.Lock()
	defer vLabels.Unlock()
	for _, p := range peers {
		if l, ok := vLabels.byAddr[p]; ok {
			return l
		}
	}
	vLabels.n++
	vMarkCase() // a founding member: the case builds its own cluster
	return fmt.Sprintf("verif-%d-%d-%d", os.Getpid(), time.Now().UnixNano(), vLabels.n)
}

func vRegisterLabel(addr string, m *vMember) {
	vLabels.Lock()
	vLabels.byAddr[addr] = m.cfg.MemberlistConfig.Label
	vLabels.Unlock()
}

// vStartMember starts one full member and waits until it is bootstrapped.
func vStartMember(o vOpts, peers []string) (*vMember, error) {
	var lastStartErr error
	label := vLabelFor(peers)
	for attempt := 0; attempt < 5; attempt++ {
		c := vConfig(o)
		c.MemberlistConfig.Label = label
		port, err := testutil.GetFreePort()
		if err != nil {
			return nil, err
		}
		c.BindPort = port
		c.Peers = append([]string(nil), peers...)
		if err := c.Sanitize(); err != nil {
			return nil, err
		}
		if err := c.Validate(); err != nil {
			return nil, err
		}
		db, err := New(c)
		if err != nil {
			return nil, err
		}
		errCh := make(chan error, 1)
		go func() { errCh <- db.Start() }()
		deadline := time.Now().Add(8 * time.Second)
		ok := false
		for time.Now().Before(deadline) {
			select {
			case err := <-errCh:
				lastStartErr = err
				deadline = time.Now() // start failed (port taken): retry with another port
			default:
			}
			if db.rt != nil && db.rt.IsBootstrapped() {
				select {
				case <-db.server.StartedCtx.Done():
					ok = true
				default:
				}
			}
			if ok {
				break
			}
			time.Sleep(2 * time.Millisecond)
		}
		if !ok {
			ctx, cancel := context.WithTimeout(context.Background(), 2*time.Second)
			_ = db.Shutdown(ctx)
			cancel()
			continue
		}
		m := &vMember{db: db, cfg: c, alive: true}
		m.name = net.JoinHostPort(c.BindAddr, strconv.Itoa(c.BindPort))
		vMarkAlive(m.name, true)
		m.emb = db.NewEmbeddedClient()
		m.rc = redis.NewClient(&redis.Options{Addr: m.name, MaxRetries: -1, DialTimeout: 2 * time.Second, ReadTimeout: 10 * time.Second, PoolSize: 64})
		return m, nil
	}
	return nil, fmt.Errorf("%w: member could not be started: %v", errInconclusive, lastStartErr)
}

func (cl *vCluster) live() []*vMember {
	var out []*vMember
	for _, m := range cl.members {
		if m.alive {
			out = append(out, m)
		}
	}
	return out
}

func (cl *vCluster) memberlistAddrs() []string {
	var peers []string
	for _, m := range cl.live() {
		addr := m.db.rt.Discovery().LocalNode().Address()
		vRegisterLabel(addr, m)
		peers = append(peers, addr)
	}
	return peers
}

func (cl *vCluster) addMember() (*vMember, error) {
	m, err := vStartMember(cl.opts, cl.memberlistAddrs())
	if err != nil {
		return nil, err
	}
	cl.members = append(cl.members, m)
	return m, nil
}

// vNewCluster builds a cluster and waits until it is stable.
func vNewCluster(o vOpts) (*vCluster, error) {
	cl := &vCluster{opts: o}
	for i := 0; i < o.Members; i++ {
		if _, err := cl.addMember(); err != nil {
			cl.shutdown()
			return nil, err
		}
		if err := cl.waitStable(10 * time.Second); err != nil {
			cl.shutdown()
			return nil, err
		}
	}
	return cl, nil
}

// routingSnapshot renders the owners/backups lists of one member.
func routingSnapshot(db *Olric) string {
	var sb strings.Builder
	for partID := uint64(0); partID < db.config.PartitionCount; partID++ {
		sb.WriteString(strconv.FormatUint(partID, 10))
		sb.WriteByte(':')
		for _, o := range db.primary.PartitionByID(partID).Owners() {
			sb.WriteString(o.Name)
			sb.WriteByte(',')
		}
		sb.WriteByte('|')
		for _, o := range db.backup.PartitionByID(partID).Owners() {
			sb.WriteString(o.Name)
			sb.WriteByte(',')
		}
		sb.WriteByte(';')
	}
	return sb.String()
}

// stableNow reports whether every live member sees the same membership and the
// same routing table, whose owners are all live members, one owner per partition.
func (cl *vCluster) stableNow() bool {
	live := cl.live()
	if len(live) == 0 {
		return true
	}
	names := map[string]bool{}
	for _, m := range live {
		names[m.name] = true
	}
	var ref string
	for i, m := range live {
		if !m.db.rt.IsBootstrapped() || int(m.db.rt.NumMembers()) != len(live) {
			return false
		}
		if m.db.rt.Discovery().NumMembers() != len(live) || rtMembers(m.db) != len(live) {
			return false
		}
		s := routingSnapshot(m.db)
		if i == 0 {
			ref = s
		} else if s != ref {
			return false
		}
	}
	m := live[0]
	wantBackups := cl.opts.Replicas - 1
	if len(live)-1 < wantBackups {
		wantBackups = len(live) - 1
	}
	for partID := uint64(0); partID < m.db.config.PartitionCount; partID++ {
		owners := m.db.primary.PartitionByID(partID).Owners()
		if len(owners) != 1 || !names[owners[0].Name] {
			return false
		}
		bk := m.db.backup.PartitionByID(partID).Owners()
		if len(bk) != wantBackups {
			return false
		}
		for _, b := range bk {
			if !names[b.Name] {
				return false
			}
		}
	}
	return true
}

// waitStable waits for stableNow to hold twice in a row.
func (cl *vCluster) waitStable(timeout time.Duration) error {
	deadline := time.Now().Add(timeout)
	ok := 0
	for time.Now().Before(deadline) {
		if cl.stableNow() {
			ok++
			if ok >= 3 {
				return nil
			}
		} else {
			ok = 0
		}
		time.Sleep(5 * time.Millisecond)
	}
	return fmt.Errorf("%w: cluster did not stabilise within %v", errInconclusive, timeout)
}

func (cl *vCluster) shutdown() {
	if cl.cc != nil {
		_ = cl.cc.Close(context.Background())
		cl.cc = nil
	}
	var wg sync.WaitGroup
	for _, m := range cl.members {
		if m.rc != nil {
			_ = m.rc.Close()
		}
		if !m.alive {
			continue
		}
		m.alive = false
		vMarkAlive(m.name, false)
		wg.Add(1)
		go func(m *vMember) {
			defer wg.Done()
			ctx, cancel := context.WithTimeout(context.Background(), 5*time.Second)
			_ = m.db.Shutdown(ctx)
			cancel()
		}(m)
	}
	wg.Wait()
}

func (cl *vCluster) clusterClient() (*ClusterClient, error) {
	if cl.cc != nil {
		return cl.cc, nil
	}
	var addrs []string
	for _, m := range cl.live() {
		addrs = append(addrs, m.name)
	}
	// like the members' internal client, the harness' cluster client does not re-send a request that timed out
	// (a request applied twice is the client configuration's at-least-once behaviour, not a subject of the checks)
	ccfg := config.NewClient()
	ccfg.MaxRetries = -1
	cc, err := NewClusterClient(addrs, WithLogger(log.New(vLogSink, "", 0)), WithRoutingTableFetchInterval(500*time.Millisecond), WithConfig(ccfg))
	if err != nil {
		return nil, fmt.Errorf("%w: cluster client: %v", errInconclusive, err)
	}
	cl.cc = cc
	return cc, nil
}

func (cl *vCluster) byName(name string) *vMember {
	for _, m := range cl.members {
		if m.name == name {
			return m
		}
	}
	return nil
}

// ownerOf returns the primary owner of a key as seen by the first live member.
func (cl *vCluster) ownerOf(dmapName, key string) *vMember {
	m := cl.live()[0]
	hkey := partitions.HKey(dmapName, key)
	o := m.db.primary.PartitionByHKey(hkey).Owner()
	return cl.byName(o.Name)
}

func (cl *vCluster) backupsOf(dmapName, key string) []*vMember {
	m := cl.live()[0]
	hkey := partitions.HKey(dmapName, key)
	var out []*vMember
	for _, o := range m.db.backup.PartitionOwnersByHKey(hkey) {
		if bm := cl.byName(o.Name); bm != nil {
			out = append(out, bm)
		}
	}
	return out
}

// nonOwner returns a live member that is not the primary owner (nil in a 1-member cluster).
func (cl *vCluster) nonOwner(dmapName, key string, pick int) *vMember {
	owner := cl.ownerOf(dmapName, key)
	var others []*vMember
	for _, m := range cl.live() {
		if m != owner {
			others = append(others, m)
		}
	}
	if len(others) == 0 {
		return nil
	}
	if pick < 0 {
		pick = -pick
	}
	return others[pick%len(others)]
}

func memberNames(ms []discovery.Member) []string {
	var out []string
	for _, m := range ms {
		out = append(out, m.Name)
	}
	sort.Strings(out)
	return out
}

// ---- cluster pool --------------------------------------------------------------

var (
	vPoolMu sync.Mutex
	vPool   = map[string]*vCluster{}
)

// pooledCluster returns a stable cluster for the configuration, building it on first use.
// Cases using a pooled cluster must use fresh DMap names and must not change membership.
func pooledCluster(o vOpts) (*vCluster, error) {
	vPoolMu.Lock()
	defer vPoolMu.Unlock()
	if cl, ok := vPool[o.key()]; ok {
		if cl.stableNow() {
			vMarkCase()
			return cl, nil
		}
		if err := cl.waitStable(5 * time.Second); err == nil {
			vMarkCase()
			return cl, nil
		}
		cl.shutdown()
		delete(vPool, o.key())
	}
	// keep the pool small: member goroutines and timers cost CPU
	if len(vPool) >= 6 {
		for k, cl := range vPool {
			cl.shutdown()
			delete(vPool, k)
			break
		}
	}
	cl, err := vNewCluster(o)
	if err != nil {
		return nil, err
	}
	vPool[o.key()] = cl
	vMarkCase()
	return cl, nil
}

func shutdownPool() {
	vPoolMu.Lock()
	defer vPoolMu.Unlock()
	for k, cl := range vPool {
		cl.shutdown()
		delete(vPool, k)
	}
}

var vNameSeq struct {
	sync.Mutex
	n int
}

// freshName returns a DMap name never used before in this process.
func freshName(prefix string) string {
	vNameSeq.Lock()
	defer vNameSeq.Unlock()
	vNameSeq.n++
	return fmt.Sprintf("%s%d", prefix, vNameSeq.n)
}

// ---- error classes ---------------------------------------------------------------

// errClass normalises an error to a class that does not depend on which
// package's sentinel was returned or whether it crossed the wire.
func errClass(err error) string {
	if err == nil {
		return ""
	}
	s := err.Error()
	switch {
	case strings.Contains(s, "key not found"):
		return "notfound"
	case strings.Contains(s, "key found"):
		return "keyfound"
	case strings.Contains(s, "write quorum cannot be reached"):
		return "writequorum"
	case strings.Contains(s, "read quorum cannot be reached"):
		return "readquorum"
	case strings.Contains(s, "lock not acquired"):
		return "locknotacquired"
	case strings.Contains(s, "no such lock"):
		return "nosuchlock"
	case strings.Contains(s, "key too large"):
		return "keytoolarge"
	case strings.Contains(s, "entry too large"):
		return "entrytoolarge"
	case strings.Contains(s, "failed to find enough peers"):
		return "clusterquorum"
	case errors.Is(err, redis.Nil):
		return "nil"
	}
	return "other:" + s
}

// ---- asynchronous start (member-count quorum > 1: a member only finishes starting once enough peers are present) ----

// vStartMemberAsync creates a member and starts it in the background; ready() tells when it is bootstrapped.
func vStartMemberAsync(o vOpts, peers []string) (*vMember, error) {
	c := vConfig(o)
	c.MemberlistConfig.Label = vLabelFor(peers)
	port, err := testutil.GetFreePort()
	if err != nil {
		return nil, err
	}
	c.BindPort = port
	c.Peers = append([]string(nil), peers...)
	if err := c.Sanitize(); err != nil {
		return nil, err
	}
	if err := c.Validate(); err != nil {
		return nil, err
	}
	db, err := New(c)
	if err != nil {
		return nil, err
	}
	go func() { _ = db.Start() }()
	m := &vMember{db: db, cfg: c, alive: true}
	m.name = net.JoinHostPort(c.BindAddr, strconv.Itoa(c.BindPort))
	vMarkAlive(m.name, true)
	m.emb = db.NewEmbeddedClient()
	m.rc = redis.NewClient(&redis.Options{Addr: m.name, MaxRetries: -1, DialTimeout: 2 * time.Second, ReadTimeout: 10 * time.Second, PoolSize: 64})
	return m, nil
}

// memberlistUp waits until the member's gossip layer listens, so that others can join through it.
func (m *vMember) memberlistUp(timeout time.Duration) (addr string, ok bool) {
	deadline := time.Now().Add(timeout)
	for time.Now().Before(deadline) {
		func() {
			defer func() { _ = recover() }()
			if d := m.db.rt.Discovery(); d != nil {
				if n := d.LocalNode(); n != nil {
					addr = n.Address()
				}
			}
		}()
		if addr != "" {
			vRegisterLabel(addr, m)
			return addr, true
		}
		time.Sleep(2 * time.Millisecond)
	}
	return "", false
}

func (m *vMember) ready() bool {
	if !m.db.rt.IsBootstrapped() {
		return false
	}
	select {
	case <-m.db.server.StartedCtx.Done():
		return true
	default:
		return false
	}
}

// stop shuts a member down gracefully (leave broadcast).
func (cl *vCluster) stop(m *vMember) {
	if !m.alive {
		return
	}
	m.alive = false
	vMarkAlive(m.name, false)
	ctx, cancel := context.WithTimeout(context.Background(), 5*time.Second)
	_ = m.db.Shutdown(ctx)
	cancel()
	_ = m.rc.Close()
	if cl.cc != nil {
		_ = cl.cc.Close(context.Background())
		cl.cc = nil
	}
}
