package olric

// C02, part "stepped": plain Put and Delete issued after a member has stopped, on members whose routing push, balancer,
// janitor and compaction only run when the harness says so.
//
// The main part runs on live clusters, where fragments are handed over in the background after a stop; a Delete that
// meets a fragment in flight is one of the recorded findings, and it has the same symptom (a deleted key reads its old
// value again) as a Delete that simply does not reach a copy. Here nothing moves after the stop - the table is pushed,
// no balancer runs - so the state is the one a stop produces and nothing else: keys that live on their backup copy
// only, a new primary owner that still holds (and is listed for) its former backup fragment. In that state an
// acknowledged Delete must remove every copy that any survivor holds, and an acknowledged Put must be what every
// survivor reads.

import (
	"context"
	"encoding/json"
	"fmt"
	"testing"
	"time"

	"github.com/olric-data/olric/internal/cluster/partitions"
	"github.com/olric-data/olric/internal/zzverif/vcommon"
	"pgregory.net/rapid"
)

type c02sCase struct {
	Members    int    `json:"members"`
	Replicas   int    `json:"replicas"`
	Partitions int    `json:"partitions"`
	Keys       int    `json:"keys"`
	Victim     int    `json:"victim"`
	Kind       string `json:"kind"` // leave | kill
	// after the stop, key i gets: 0 nothing, 1 Delete, 2 Put, 3 Put then Delete; through member (i+Via) of the survivors
	Acts []int `json:"acts"`
	Via  int   `json:"via"`
}

func genC02s(t *rapid.T) *c02sCase {
	c := &c02sCase{}
	c.Replicas = rapid.IntRange(2, 3).Draw(t, "replicas")
	c.Members = rapid.IntRange(c.Replicas, 4).Draw(t, "members")
	if c.Members < 3 {
		c.Members = 3
	}
	c.Partitions = rapid.SampledFrom([]int{7, 13}).Draw(t, "partitions")
	c.Keys = rapid.IntRange(6, 30).Draw(t, "keys")
	c.Victim = rapid.IntRange(0, 3).Draw(t, "victim")
	c.Kind = rapid.SampledFrom([]string{"leave", "kill"}).Draw(t, "kind")
	c.Via = rapid.IntRange(0, 3).Draw(t, "via")
	for i := 0; i < c.Keys; i++ {
		c.Acts = append(c.Acts, rapid.SampledFrom([]int{0, 1, 1, 2, 3}).Draw(t, "act"))
	}
	return c
}

func runC02s(c *c02sCase) (v *vcommon.Violation, nontrivial, inconclusive bool) {
	opts := vOpts{Members: c.Members, Replicas: c.Replicas, Partitions: c.Partitions, Stepped: true, FastDetect: true, TableSize: 1024}
	cl := &vCluster{opts: opts}
	defer cl.shutdown()
	for i := 0; i < c.Members; i++ {
		if _, err := cl.addMember(); err != nil {
			return nil, false, true
		}
		if err := cl.waitSettled(15 * time.Second); err != nil {
			return nil, false, true
		}
	}
	ctx, cancel := context.WithTimeout(context.Background(), 60*time.Second)
	defer cancel()
	name := freshName("c02s-")
	var hist []string
	bad := func(class, format string, args ...interface{}) *vcommon.Violation {
		v := vcommon.NewViolation("C02", "stepped", class, c, format, args...)
		v.History = vcommon.MustJSON(hist)
		return v
	}
	keyName := func(i int) string { return fmt.Sprintf("key-%d", i) }
	dm0, err := cl.live()[0].emb.NewDMap(name)
	if err != nil {
		return nil, false, true
	}
	for i := 0; i < c.Keys; i++ {
		if err := dm0.Put(ctx, keyName(i), []byte(fmt.Sprintf("first-%d", i))); err != nil {
			return nil, false, true
		}
	}
	victim := cl.live()[c.Victim%len(cl.live())]
	onVictim := map[int]string{}
	for i := 0; i < c.Keys; i++ {
		if victim.db.dmap.VerifCheck(name, keyName(i), partitions.PRIMARY) {
			onVictim[i] = "primary"
		} else if victim.db.dmap.VerifCheck(name, keyName(i), partitions.BACKUP) {
			onVictim[i] = "backup"
		}
	}
	if c.Kind == "kill" {
		cl.kill(victim)
	} else {
		cl.stop(victim)
	}
	if err := cl.waitSettled(25 * time.Second); err != nil {
		return nil, false, true
	}
	if co := cl.coordinator(); co != nil {
		co.db.rt.UpdateEagerly()
	}
	if err := cl.waitSettled(20 * time.Second); err != nil {
		return nil, false, true
	}
	hist = append(hist, fmt.Sprintf("stopped %s (%s); its copies: %v", victim.name, c.Kind, onVictim))
	live := cl.live()
	final := map[int]string{} // "" = deleted; absent = untouched
	for i := 0; i < c.Keys; i++ {
		m := live[(i+c.Via)%len(live)]
		dm, err := m.emb.NewDMap(name)
		if err != nil {
			return nil, nontrivial, true
		}
		key := keyName(i)
		act := c.Acts[i]
		if act == 2 || act == 3 {
			val := fmt.Sprintf("second-%d", i)
			if err := dm.Put(ctx, key, []byte(val)); err != nil {
				if transportNoise(err.Error()) {
					return nil, nontrivial, true
				}
				return bad("put-after-stop", "Put(%s) through %s after the stop failed: %v", key, m.name, err), nontrivial, false
			}
			final[i] = val
		}
		if act == 1 || act == 3 {
			if _, err := dm.Delete(ctx, key); err != nil {
				if transportNoise(err.Error()) {
					return nil, nontrivial, true
				}
				return bad("delete-after-stop", "Delete(%s) through %s after the stop failed: %v", key, m.name, err), nontrivial, false
			}
			final[i] = ""
			if onVictim[i] != "" {
				nontrivial = true
			}
		}
		hist = append(hist, fmt.Sprintf("key-%d act %d via %s", i, act, m.name))
	}
	for i, want := range final {
		key := keyName(i)
		for _, m := range live {
			if want == "" {
				for _, kind := range []partitions.Kind{partitions.PRIMARY, partitions.BACKUP} {
					if m.db.dmap.VerifCheck(name, key, kind) {
						return bad("delete-left-a-copy", "%s was deleted (acknowledged) after %s had stopped (it held the %s copy), nothing moves in this cluster, yet %s still stores it in its %s fragment", key, victim.name, onVictim[i], m.name, kind), nontrivial, false
					}
				}
			}
			dm, err := m.emb.NewDMap(name)
			if err != nil {
				return nil, nontrivial, true
			}
			g := fromGetResponse(dm.Get(ctx, key))
			if transportNoise(g.Err) {
				return nil, nontrivial, true
			}
			if want == "" && g.Err != "notfound" {
				return bad("resurrected", "%s was deleted after the stop but reads %s through %s", key, g.String(), m.name), nontrivial, false
			}
			if want != "" && (g.Err != "" || string(g.Val) != want) {
				return bad("lost-or-rolled-back", "%s was written (%q, acknowledged) after the stop but reads %s through %s", key, want, g.String(), m.name), nontrivial, false
			}
		}
	}
	return nil, nontrivial, false
}

func TestVerifC02Stepped(t *testing.T) {
	p := vcommon.Env()
	if p.Replay != "" {
		v, err := vcommon.LoadViolation(p.Replay)
		if err != nil {
			t.Fatal(err)
		}
		c := &c02sCase{}
		if err := json.Unmarshal(v.Case, c); err != nil {
			t.Fatal(err)
		}
		for i := 0; i < 3; i++ {
			got, _, _ := runC02s(c)
			if got != nil {
				path := vcommon.SaveViolation(got)
				fmt.Printf("VERIF-VIOLATION %s %s\n", path, got.Message)
				t.Fatalf("replay still fails: %s", got.Message)
			}
		}
		return
	}
	col := vcommon.NewCollector("C02", "stepped")
	t.Cleanup(col.Flush)
	rapid.Check(t, func(rt *rapid.T) {
		c := genC02s(rt)
		v, nt, inc := runC02s(c)
		if inc || (v != nil && vFlapsSinceMark() > 0) {
			col.Inconclusive()
			return
		}
		col.Record(vcommon.MustJSON(c), nt, fmt.Sprintf("R:%d", c.Replicas), "kind:"+c.Kind)
		if v != nil {
			if vcommon.Known(v.Class) {
				col.ExcludedKnown()
				return
			}
			vcommon.SaveViolation(v)
			rt.Fatalf("%s", v.Message)
		}
	})
}
