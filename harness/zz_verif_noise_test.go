package olric

import (
	"bytes"
	"strings"
	"sync"
	"sync/atomic"
)

// transportNoise reports whether a violation message mentions a network-level failure (a member's client was closed
// because the failure detector flapped under load, a connection was reset, a deadline passed), or whether the failure
// detector has dropped a member the harness considers alive since the current case obtained its cluster. Such a failure
// says that membership was not stable, not that an operation has a wrong meaning; protocol-level errors ("ERR syntax
// error", a wrong sentinel) are NOT noise.
func transportNoise(s string) bool {
	for _, p := range []string{"connection refused", "client is closed", "i/o timeout", "connection reset", "deadline exceeded",
		"broken pipe", "use of closed network connection", ": EOF", "other:EOF", "no route to host", "pool timeout"} {
		if strings.Contains(s, p) {
			return true
		}
	}
	return vFlapsSinceMark() > 0
}

// vLogSink receives the log lines of every member and cluster client of the harness (level INFO, default verbosity).
// It watches for two things:
//   - "Node left: <name>" for a member the harness has neither stopped nor killed: the failure detector dropped a
//     healthy member because the machine was too busy to answer probes in time. Its partitions are reassigned, with one
//     replica its data is gone: the precondition of every listed property (stable membership, or only the failures the
//     harness injected) no longer holds and the case is inconclusive.
//   - "Failed to fetch data": the iterators have no error result, they log this and end the iteration.
type vLogSinkT struct {
	mu          sync.Mutex
	fetchErrors int64
	replicaErrs int64
	replicaMark int64
	flaps       int64
	mark        int64
	alive       map[string]bool
	flapped     []string
}

var vLogSink = &vLogSinkT{alive: map[string]bool{}}

func (s *vLogSinkT) Write(p []byte) (int, error) {
	if bytes.Contains(p, []byte("Failed to fetch data")) {
		atomic.AddInt64(&s.fetchErrors, 1)
	}
	// a replica write or replica delete that failed (time-out on a busy machine): with WriteQuorum 1 the operation
	// is acknowledged all the same, with one copy fewer - the cluster was not healthy at that moment
	if bytes.Contains(p, []byte("Failed to call put command on")) || bytes.Contains(p, []byte("Failed to delete replica")) ||
		bytes.Contains(p, []byte("Failed to create replica")) {
		atomic.AddInt64(&s.replicaErrs, 1)
	}
	if i := bytes.Index(p, []byte("Node left: ")); i >= 0 {
		f := strings.Fields(string(p[i+len("Node left: "):]))
		if len(f) > 0 {
			s.mu.Lock()
			if s.alive[f[0]] {
				s.flaps++
				s.flapped = append(s.flapped, f[0])
				if len(s.flapped) > 20 {
					s.flapped = s.flapped[1:]
				}
			}
			s.mu.Unlock()
		}
	}
	return len(p), nil
}

func vFetchErrors() int64 { return atomic.LoadInt64(&vLogSink.fetchErrors) }

// vMarkAlive records whether the harness considers the member with that name to be running.
func vMarkAlive(name string, alive bool) {
	vLogSink.mu.Lock()
	if alive {
		vLogSink.alive[name] = true
	} else {
		delete(vLogSink.alive, name)
	}
	vLogSink.mu.Unlock()
}

// vMarkCase: a case has obtained its cluster; flaps are counted from here.
func vMarkCase() {
	vLogSink.mu.Lock()
	vLogSink.mark = vLogSink.flaps
	vLogSink.mu.Unlock()
	atomic.StoreInt64(&vLogSink.replicaMark, atomic.LoadInt64(&vLogSink.replicaErrs))
}

// vReplicaErrorsSinceMark: replica writes / deletes that failed since the current case obtained its cluster.
func vReplicaErrorsSinceMark() int64 {
	return atomic.LoadInt64(&vLogSink.replicaErrs) - atomic.LoadInt64(&vLogSink.replicaMark)
}

func vFlapsSinceMark() int64 {
	vLogSink.mu.Lock()
	defer vLogSink.mu.Unlock()
	return vLogSink.flaps - vLogSink.mark
}
