package olric

import "strings"

// transportNoise reports whether a message mentions a network-level failure (a member's client was closed because the
// failure detector flapped under load, a connection was reset, a deadline passed). Such a failure says that membership
// was not stable, not that an operation has a wrong meaning; protocol-level errors ("ERR syntax error", a wrong sentinel)
// are NOT noise.
func transportNoise(s string) bool {
	for _, p := range []string{"connection refused", "client is closed", "i/o timeout", "connection reset", "deadline exceeded",
		"broken pipe", "use of closed network connection", ": EOF", "other:EOF", "no route to host", "pool timeout"} {
		if strings.Contains(s, p) {
			return true
		}
	}
	return false
}
