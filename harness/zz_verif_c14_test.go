package olric

// C14: Pub/Sub delivers each message exactly once to every matching subscriber.

import (
	"bufio"
	"encoding/json"
	"fmt"
	"net"
	"sort"
	"strconv"
	"strings"
	"testing"
	"time"

	"github.com/olric-data/olric/internal/zzverif/vcommon"
	"pgregory.net/rapid"
)

// ---- a minimal RESP client: write argv, read one reply ----

type respConn struct {
	c net.Conn
	r *bufio.Reader
}

func respDial(addr string) (*respConn, error) {
	c, err := net.DialTimeout("tcp", addr, 2*time.Second)
	if err != nil {
		return nil, err
	}
	return &respConn{c: c, r: bufio.NewReader(c)}, nil
}

func (rc *respConn) send(args ...string) error {
	var sb strings.Builder
	sb.WriteString("*" + strconv.Itoa(len(args)) + "\r\n")
	for _, a := range args {
		sb.WriteString("$" + strconv.Itoa(len(a)) + "\r\n" + a + "\r\n")
	}
	_ = rc.c.SetWriteDeadline(time.Now().Add(5 * time.Second))
	_, err := rc.c.Write([]byte(sb.String()))
	return err
}

// read returns one reply: string (simple/bulk), int64, error string prefixed with "-", nil, or []interface{}.
func (rc *respConn) read() (interface{}, error) {
	_ = rc.c.SetReadDeadline(time.Now().Add(10 * time.Second))
	line, err := rc.r.ReadString('\n')
	if err != nil {
		return nil, err
	}
	line = strings.TrimRight(line, "\r\n")
	if line == "" {
		return nil, fmt.Errorf("empty reply line")
	}
	switch line[0] {
	case '+':
		return line[1:], nil
	case '-':
		return "-" + line[1:], nil
	case ':':
		n, err := strconv.ParseInt(line[1:], 10, 64)
		return n, err
	case '$':
		n, err := strconv.Atoi(line[1:])
		if err != nil {
			return nil, err
		}
		if n < 0 {
			return nil, nil
		}
		buf := make([]byte, n+2)
		if _, err := readFull(rc.r, buf); err != nil {
			return nil, err
		}
		return string(buf[:n]), nil
	case '*':
		n, err := strconv.Atoi(line[1:])
		if err != nil {
			return nil, err
		}
		if n < 0 {
			return nil, nil
		}
		out := make([]interface{}, 0, n)
		for i := 0; i < n; i++ {
			v, err := rc.read()
			if err != nil {
				return nil, err
			}
			out = append(out, v)
		}
		return out, nil
	case '_':
		return nil, nil
	}
	return nil, fmt.Errorf("unexpected reply %q", line)
}

func readFull(r *bufio.Reader, buf []byte) (int, error) {
	n := 0
	for n < len(buf) {
		m, err := r.Read(buf[n:])
		n += m
		if err != nil {
			return n, err
		}
	}
	return n, nil
}

func (rc *respConn) do(args ...string) (interface{}, error) {
	if err := rc.send(args...); err != nil {
		return nil, err
	}
	return rc.read()
}

// ---- the case ----

type c14Op struct {
	Op     string   `json:"op"` // subscribe psubscribe unsubscribe punsubscribe publish disconnect channels numsub numpat
	Conn   int      `json:"conn,omitempty"`
	Member int      `json:"member,omitempty"`
	Names  []string `json:"names,omitempty"`
	Quit   bool     `json:"quit,omitempty"`
}

type c14Case struct {
	Opts  vOpts   `json:"opts"`
	Conns []int   `json:"conns"` // member index of every subscriber connection
	Ops   []c14Op `json:"ops"`
}

var c14Channels = []string{"a", "ab", "abc", "b", "news.x"}
var c14Patterns = []string{"a*", "*", "?b", "news.*", "zzz*", "a"}

func genC14(t *rapid.T) *c14Case {
	c := &c14Case{}
	c.Opts.Members = rapid.IntRange(1, 3).Draw(t, "members")
	c.Opts.Replicas = 1
	c.Opts.Partitions = 7
	nc := rapid.IntRange(2, 6).Draw(t, "conns")
	for i := 0; i < nc; i++ {
		c.Conns = append(c.Conns, rapid.IntRange(0, c.Opts.Members-1).Draw(t, "cm"))
	}
	n := rapid.IntRange(4, 30).Draw(t, "nops")
	kinds := []string{"subscribe", "subscribe", "psubscribe", "psubscribe", "unsubscribe", "punsubscribe", "publish", "publish", "publish", "publish", "disconnect", "channels", "numsub", "numpat"}
	for i := 0; i < n; i++ {
		op := c14Op{Op: rapid.SampledFrom(kinds).Draw(t, "op")}
		op.Conn = rapid.IntRange(0, nc-1).Draw(t, "conn")
		op.Member = rapid.IntRange(0, c.Opts.Members-1).Draw(t, "member")
		switch op.Op {
		case "subscribe":
			op.Names = rapid.SliceOfN(rapid.SampledFrom(c14Channels), 1, 3).Draw(t, "chs")
		case "psubscribe":
			op.Names = rapid.SliceOfN(rapid.SampledFrom(c14Patterns), 1, 3).Draw(t, "pats")
		case "unsubscribe":
			op.Names = rapid.SliceOfN(rapid.SampledFrom(c14Channels), 0, 2).Draw(t, "chs")
		case "punsubscribe":
			op.Names = rapid.SliceOfN(rapid.SampledFrom(c14Patterns), 0, 2).Draw(t, "pats")
		case "publish":
			op.Names = []string{rapid.SampledFrom(c14Channels).Draw(t, "ch")}
		case "disconnect":
			op.Quit = rapid.Bool().Draw(t, "quit")
		case "channels":
			if rapid.Bool().Draw(t, "withpat") {
				op.Names = []string{rapid.SampledFrom(c14Patterns).Draw(t, "pat")}
			}
		case "numsub":
			op.Names = rapid.SliceOfN(rapid.SampledFrom(c14Channels), 1, 3).Draw(t, "chs")
		}
		c.Ops = append(c.Ops, op)
	}
	return c
}

// globMatch implements '*' and '?' over the harness' small alphabet.
func globMatch(pat, s string) bool {
	if pat == "" {
		return s == ""
	}
	switch pat[0] {
	case '*':
		for i := 0; i <= len(s); i++ {
			if globMatch(pat[1:], s[i:]) {
				return true
			}
		}
		return false
	case '?':
		return s != "" && globMatch(pat[1:], s[1:])
	}
	return s != "" && s[0] == pat[0] && globMatch(pat[1:], s[1:])
}

type c14Sub struct {
	rc     *respConn
	member int
	mode   bool // pub/sub mode entered
	dead   bool
	chans  map[string]bool
	pats   map[string]bool
	pingN  int
}

// barrier sends PING <token> and collects every push that arrives before the matching pong.
func (s *c14Sub) barrier() ([][]interface{}, error) {
	s.pingN++
	tok := "sync-" + strconv.Itoa(s.pingN)
	if err := s.rc.send("PING", tok); err != nil {
		return nil, err
	}
	var got [][]interface{}
	for {
		v, err := s.rc.read()
		if err != nil {
			return nil, err
		}
		arr, ok := v.([]interface{})
		if !ok {
			return nil, fmt.Errorf("unexpected reply in pub/sub mode: %v", v)
		}
		if len(arr) == 2 && arr[0] == "pong" && arr[1] == tok {
			return got, nil
		}
		got = append(got, arr)
	}
}

func runC14(c *c14Case) (v *vcommon.Violation, nontrivial, inconclusive bool) {
	cl, err := pooledCluster(c.Opts)
	if err != nil {
		return nil, false, true
	}
	live := cl.live()
	var log []string
	step := -1
	bad := func(class, format string, args ...interface{}) *vcommon.Violation {
		cut := *c
		if step >= 0 && step+1 < len(cut.Ops) {
			cut.Ops = c.Ops[:step+1]
		}
		v := vcommon.NewViolation("C14", "pubsub", class, &cut, format, args...)
		if step >= 0 {
			v.Message = fmt.Sprintf("step %d %s: %s", step, vcommon.MustJSON(c.Ops[step]), v.Message)
		}
		v.History = vcommon.MustJSON(log)
		return v
	}
	subs := make([]*c14Sub, len(c.Conns))
	ctl := make([]*respConn, len(live))
	closeAll := func() {
		for _, s := range subs {
			if s != nil && s.rc != nil {
				_ = s.rc.c.Close()
			}
		}
		for _, cc := range ctl {
			if cc != nil {
				_ = cc.c.Close()
			}
		}
	}
	defer closeAll()
	base := make([]int, len(live))
	for i, m := range live {
		cc, err := respDial(m.name)
		if err != nil {
			return nil, false, true
		}
		ctl[i] = cc
		base[i] = m.db.pubsub.VerifConnCount()
	}
	// earlier cases of this shard closed their connections; wait until the members forgot them
	deadline := time.Now().Add(3 * time.Second)
	for i, m := range live {
		for m.db.pubsub.VerifConnCount() != 0 {
			if time.Now().After(deadline) {
				return nil, false, true
			}
			time.Sleep(time.Millisecond)
		}
		base[i] = 0
	}
	for i, mi := range c.Conns {
		rc, err := respDial(live[mi%len(live)].name)
		if err != nil {
			return nil, false, true
		}
		subs[i] = &c14Sub{rc: rc, member: mi % len(live), chans: map[string]bool{}, pats: map[string]bool{}}
	}
	pubSeq := 0
	hadUnsub := false
	for i, op := range c.Ops {
		step = i
		s := subs[op.Conn]
		switch op.Op {
		case "subscribe", "psubscribe", "unsubscribe", "punsubscribe":
			if s.dead {
				continue
			}
			name := op.Op
			if !s.mode && (name == "unsubscribe" || name == "punsubscribe") {
				continue // not a command outside pub/sub mode
			}
			args := append([]string{strings.ToUpper(name)}, op.Names...)
			if err := s.rc.send(args...); err != nil {
				return nil, nontrivial, true
			}
			var first [][]interface{}
			if !s.mode {
				// the connection is handed over to the pub/sub reader by this command: take the
				// acknowledgements before anything else is written to it
				for range op.Names {
					v, err := s.rc.read()
					if err != nil {
						return bad("connection-broken", "%s: no acknowledgement: %v", name, err), nontrivial, false
					}
					arr, ok := v.([]interface{})
					if !ok {
						return bad("unexpected-push", "%s: replied %v", name, v), nontrivial, false
					}
					first = append(first, arr)
				}
			}
			s.mode = true
			acks, err := s.barrier()
			acks = append(first, acks...)
			if err != nil {
				return bad("connection-broken", "%s: the connection broke: %v", name, err), nontrivial, false
			}
			for _, a := range acks {
				if len(a) < 1 || (a[0] != name) {
					return bad("unexpected-push", "%s: unexpected push %v while no message was published", name, a), nontrivial, false
				}
			}
			log = append(log, fmt.Sprintf("%d conn%d@m%d %s %v -> %d acks", i, op.Conn, s.member, name, op.Names, len(acks)))
			switch name {
			case "subscribe":
				for _, n := range op.Names {
					s.chans[n] = true
				}
			case "psubscribe":
				for _, n := range op.Names {
					s.pats[n] = true
				}
			case "unsubscribe":
				hadUnsub = true
				if len(op.Names) == 0 {
					s.chans = map[string]bool{}
				}
				for _, n := range op.Names {
					delete(s.chans, n)
				}
			case "punsubscribe":
				hadUnsub = true
				if len(op.Names) == 0 {
					s.pats = map[string]bool{}
				}
				for _, n := range op.Names {
					delete(s.pats, n)
				}
			}
		case "disconnect":
			if s.dead {
				continue
			}
			if op.Quit && s.mode {
				_, _ = s.rc.do("QUIT")
			}
			_ = s.rc.c.Close()
			s.dead = true
			hadUnsub = true
			// the member notices asynchronously: wait until it forgot the connection
			want := 0
			for _, o := range subs {
				if o.member == s.member && o.mode && !o.dead {
					want++
				}
			}
			dl := time.Now().Add(3 * time.Second)
			for live[s.member].db.pubsub.VerifConnCount() != want {
				if time.Now().After(dl) {
					return nil, nontrivial, true
				}
				time.Sleep(time.Millisecond)
			}
			log = append(log, fmt.Sprintf("%d conn%d@m%d disconnect quit=%v", i, op.Conn, s.member, op.Quit))
		case "publish":
			ch := op.Names[0]
			pubSeq++
			msg := fmt.Sprintf("m%d", pubSeq)
			res, err := ctl[op.Member%len(live)].do("PUBLISH", ch, msg)
			if err != nil {
				return nil, nontrivial, true
			}
			count, ok := res.(int64)
			if !ok {
				return bad("publish-reply", "PUBLISH replied %v", res), nontrivial, false
			}
			total := 0
			matching, nonmatching, remote := 0, 0, false
			for ci, o := range subs {
				if o.dead || !o.mode {
					continue
				}
				got, err := o.barrier()
				if err != nil {
					return bad("connection-broken", "subscriber connection %d broke: %v", ci, err), nontrivial, false
				}
				var wantMsgs []string
				if o.chans[ch] {
					wantMsgs = append(wantMsgs, "message|"+ch+"|"+msg)
				}
				for p := range o.pats {
					if globMatch(p, ch) {
						wantMsgs = append(wantMsgs, "pmessage|"+p+"|"+ch+"|"+msg)
					}
				}
				if len(wantMsgs) > 0 {
					matching++
					if o.member != op.Member%len(live) {
						remote = true
					}
				} else if len(o.chans)+len(o.pats) > 0 {
					nonmatching++
				}
				var gotMsgs []string
				for _, g := range got {
					var parts []string
					for _, x := range g {
						parts = append(parts, fmt.Sprint(x))
					}
					gotMsgs = append(gotMsgs, strings.Join(parts, "|"))
				}
				total += len(gotMsgs)
				sort.Strings(wantMsgs)
				sort.Strings(gotMsgs)
				log = append(log, fmt.Sprintf("%d publish %s %s via m%d: conn%d@m%d got %v want %v", i, ch, msg, op.Member%len(live), ci, o.member, gotMsgs, wantMsgs))
				if len(wantMsgs) == 0 && len(gotMsgs) > 0 {
					return bad("delivered-to-non-subscriber", "connection %d (member %d, channels %v, patterns %v) received %v for a publish on %q it does not subscribe to", ci, o.member, keysOf(o.chans), keysOf(o.pats), gotMsgs, ch), nontrivial, false
				}
				if len(wantMsgs) == 1 {
					if strings.Join(gotMsgs, ",") != wantMsgs[0] {
						return bad("not-exactly-once", "connection %d (member %d) should receive exactly %q for the publish on %q through member %d, received %v", ci, o.member, wantMsgs[0], ch, op.Member%len(live), gotMsgs), nontrivial, false
					}
				}
				if len(wantMsgs) > 1 {
					// several subscriptions of one connection match: at least one delivery, at most one per matching entry
					seen := map[string]int{}
					for _, g := range gotMsgs {
						seen[g]++
					}
					if len(gotMsgs) == 0 {
						return bad("not-delivered", "connection %d has %d matching subscriptions for %q but received nothing", ci, len(wantMsgs), ch), nontrivial, false
					}
					for g, n := range seen {
						found := false
						for _, w := range wantMsgs {
							if w == g {
								found = true
							}
						}
						if !found || n > 1 {
							return bad("not-exactly-once", "connection %d received %q %d times; its matching subscriptions allow %v once each", ci, g, n, wantMsgs), nontrivial, false
						}
					}
				}
			}
			if int(count) != total {
				return bad("publish-count", "PUBLISH %q through member %d returned %d, the subscribers received %d messages", ch, op.Member%len(live), count, total), nontrivial, false
			}
			if matching >= 1 && (nonmatching >= 1 && remote || hadUnsub) {
				nontrivial = true
			}
		case "channels", "numsub", "numpat":
			mi := op.Member % len(live)
			var onMember []*c14Sub
			for _, o := range subs {
				if o.member == mi && o.mode && !o.dead {
					onMember = append(onMember, o)
				}
			}
			switch op.Op {
			case "channels":
				args := []string{"PUBSUB", "channels"}
				args = append(args, op.Names...)
				res, err := ctl[mi].do(args...)
				if err != nil {
					return nil, nontrivial, true
				}
				want := map[string]bool{}
				for _, o := range onMember {
					for chn := range o.chans {
						if len(op.Names) == 0 || globMatch(op.Names[0], chn) {
							want[chn] = true
						}
					}
				}
				arr, _ := res.([]interface{})
				var got []string
				for _, x := range arr {
					got = append(got, fmt.Sprint(x))
				}
				sort.Strings(got)
				w := keysOf(want)
				if strings.Join(got, ",") != strings.Join(w, ",") {
					return bad("channels", "PUBSUB CHANNELS %v on member %d returned %v, the distinct subscribed channels are %v", op.Names, mi, got, w), nontrivial, false
				}
			case "numsub":
				args := append([]string{"PUBSUB", "numsub"}, op.Names...)
				res, err := ctl[mi].do(args...)
				if err != nil {
					return nil, nontrivial, true
				}
				arr, _ := res.([]interface{})
				if len(arr) != 2*len(op.Names) {
					return bad("numsub", "PUBSUB NUMSUB %v returned %v", op.Names, res), nontrivial, false
				}
				for j, chn := range op.Names {
					want := 0
					for _, o := range onMember {
						if o.chans[chn] {
							want++
						}
					}
					if fmt.Sprint(arr[2*j]) != chn || fmt.Sprint(arr[2*j+1]) != strconv.Itoa(want) {
						return bad("numsub", "PUBSUB NUMSUB on member %d reports %v for %q, %d connections subscribe to that channel", mi, arr[2*j+1], chn, want), nontrivial, false
					}
				}
			case "numpat":
				res, err := ctl[mi].do("PUBSUB", "numpat")
				if err != nil {
					return nil, nontrivial, true
				}
				want := map[string]bool{}
				for _, o := range onMember {
					for p := range o.pats {
						want[p] = true
					}
				}
				if n, ok := res.(int64); !ok || int(n) != len(want) {
					return bad("numpat", "PUBSUB NUMPAT on member %d returned %v, %d distinct patterns are subscribed", mi, res, len(want)), nontrivial, false
				}
			}
		}
	}
	return nil, nontrivial, false
}

func keysOf(m map[string]bool) []string {
	var out []string
	for k := range m {
		out = append(out, k)
	}
	sort.Strings(out)
	return out
}

func TestVerifC14(t *testing.T) {
	p := vcommon.Env()
	t.Cleanup(shutdownPool)
	if p.Replay != "" {
		v, err := vcommon.LoadViolation(p.Replay)
		if err != nil {
			t.Fatal(err)
		}
		c := &c14Case{}
		if err := json.Unmarshal(v.Case, c); err != nil {
			t.Fatal(err)
		}
		for i := 0; i < 3; i++ {
			got, _, _ := runC14(c)
			if got != nil {
				path := vcommon.SaveViolation(got)
				fmt.Printf("VERIF-VIOLATION %s %s\n", path, got.Message)
				t.Fatalf("replay still fails: %s", got.Message)
			}
		}
		return
	}
	col := vcommon.NewCollector("C14", "pubsub")
	t.Cleanup(col.Flush)
	rapid.Check(t, func(rt *rapid.T) {
		c := genC14(rt)
		v, nt, inc := runC14(c)
		if inc || (v != nil && vFlapsSinceMark() > 0) {
			col.Inconclusive()
			return
		}
		col.Record(vcommon.MustJSON(c), nt, fmt.Sprintf("members:%d", c.Opts.Members), fmt.Sprintf("conns:%d", len(c.Conns)))
		if v != nil {
			if vcommon.Known(v.Class) {
				col.ExcludedKnown()
				return
			}
			vcommon.SaveViolation(v)
			rt.Fatalf("%s", v.Message)
		}
	})
}
