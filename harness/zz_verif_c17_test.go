package olric

// C17 (end to end): values and keys read back identical to what was written,
// through every client, after replication and after migration; oversized keys
// and entries are rejected cleanly.

import (
	"bytes"
	"context"
	"encoding/json"
	"fmt"
	"math"
	"sort"
	"strings"
	"testing"
	"time"

	"github.com/olric-data/olric/internal/cluster/partitions"
	"github.com/olric-data/olric/internal/zzverif/vcommon"
	"pgregory.net/rapid"
)

type c17Val struct {
	T string  `json:"t"` // int int8 int16 int32 int64 uint uint8 uint16 uint32 uint64 float32 float64 bool string bytes time duration binary
	I int64   `json:"i,omitempty"`
	U uint64  `json:"u,omitempty"`
	F float64 `json:"f,omitempty"`
	B []byte  `json:"b,omitempty"`
	// float specials do not survive JSON: NaN / +Inf / -Inf / -0 are named
	FS string `json:"fs,omitempty"`
}

type c17Item struct {
	Key  []byte `json:"key"`
	Val  c17Val `json:"val"`
	Path int    `json:"path"`
	RP   int    `json:"rp"` // path of the read back
}

type c17Reject struct {
	Kind  string `json:"kind"` // key | entry
	Delta int    `json:"delta"`
	Path  int    `json:"path"`
}

type c17Case struct {
	Opts    vOpts       `json:"opts"`
	Join    bool        `json:"join"`
	// Overwrite: the items supersede earlier values that sit in older storage tables, and the stores are compacted
	// before the copies are compared
	Overwrite bool      `json:"overwrite,omitempty"`
	Items   []c17Item   `json:"items"`
	Rejects []c17Reject `json:"rejects"`
}

type c17Bin struct{ B []byte }

func (b c17Bin) MarshalBinary() ([]byte, error) { return append([]byte{0xfe}, b.B...), nil }
func (b *c17Bin) UnmarshalBinary(p []byte) error {
	if len(p) == 0 || p[0] != 0xfe {
		return fmt.Errorf("bad blob")
	}
	b.B = append([]byte(nil), p[1:]...)
	return nil
}

func (v c17Val) float() float64 {
	switch v.FS {
	case "NaN":
		return math.NaN()
	case "+Inf":
		return math.Inf(1)
	case "-Inf":
		return math.Inf(-1)
	case "-0":
		return math.Copysign(0, -1)
	}
	return v.F
}

func genC17Val(t *rapid.T, maxBytes int) c17Val {
	v := c17Val{T: rapid.SampledFrom([]string{"int", "int8", "int16", "int32", "int64", "uint", "uint8", "uint16", "uint32", "uint64", "float32", "float64", "bool", "string", "bytes", "bytes", "time", "duration", "binary"}).Draw(t, "type")}
	switch v.T {
	case "int", "int64", "duration":
		v.I = rapid.OneOf(rapid.Just(int64(math.MinInt64)), rapid.Just(int64(math.MaxInt64)), rapid.Just(int64(0)), rapid.Int64()).Draw(t, "i")
	case "int8":
		v.I = int64(rapid.Int8().Draw(t, "i"))
	case "int16":
		v.I = int64(rapid.Int16().Draw(t, "i"))
	case "int32":
		v.I = int64(rapid.Int32().Draw(t, "i"))
	case "uint", "uint64":
		v.U = rapid.OneOf(rapid.Just(uint64(math.MaxUint64)), rapid.Uint64()).Draw(t, "u")
	case "uint8":
		v.U = uint64(rapid.Uint8().Draw(t, "u"))
	case "uint16":
		v.U = uint64(rapid.Uint16().Draw(t, "u"))
	case "uint32":
		v.U = uint64(rapid.Uint32().Draw(t, "u"))
	case "float32":
		v.FS = rapid.SampledFrom([]string{"", "", "", "NaN", "+Inf", "-Inf", "-0"}).Draw(t, "fs")
		if v.FS == "" {
			v.F = float64(rapid.OneOf(rapid.Just(float32(math.MaxFloat32)), rapid.Just(float32(math.SmallestNonzeroFloat32)), rapid.Float32()).Draw(t, "f"))
		}
	case "float64":
		v.FS = rapid.SampledFrom([]string{"", "", "", "NaN", "+Inf", "-Inf", "-0"}).Draw(t, "fs")
		if v.FS == "" {
			v.F = rapid.OneOf(rapid.Just(math.MaxFloat64), rapid.Just(math.SmallestNonzeroFloat64), rapid.Float64()).Draw(t, "f")
		}
	case "bool":
		v.I = int64(rapid.IntRange(0, 1).Draw(t, "b"))
	case "string", "bytes", "binary":
		switch rapid.IntRange(0, 4).Draw(t, "shape") {
		case 0:
			v.B = []byte{}
		case 1:
			v.B = []byte("a\r\nb\r\n$5\r\n*2\r\n")
		case 2:
			v.B = rapid.SliceOfN(rapid.Byte(), 1, 48).Draw(t, "bytes")
		case 3:
			n := rapid.IntRange(1, maxBytes).Draw(t, "n")
			v.B = bytes.Repeat([]byte{rapid.Byte().Draw(t, "fill")}, n)
		default:
			v.B = []byte{0, 0xff, '\n', 0x80, 0}
		}
	case "time":
		// years 1..9999 in the time's own zone: the wire format is RFC 3339, which has four-digit years
		// (time.Time's own MarshalText refuses anything else), so the range stays 14 h inside both ends
		v.I = rapid.Int64Range(-62135596800+14*3600, 253402300799-14*3600).Draw(t, "sec")
		v.U = uint64(rapid.Int64Range(0, 999999999).Draw(t, "nsec"))
		v.F = float64(rapid.IntRange(-14*60, 14*60).Draw(t, "offmin"))
	}
	return v
}

func genC17(t *rapid.T) *c17Case {
	c := &c17Case{}
	c.Opts.Members = rapid.IntRange(1, 2).Draw(t, "members")
	c.Opts.Replicas = rapid.IntRange(1, 2).Draw(t, "replicas")
	c.Opts.Partitions = rapid.SampledFrom([]int{7, 13}).Draw(t, "partitions")
	c.Opts.TableSize = rapid.SampledFrom([]int{1024, 4096, 0}).Draw(t, "tableSize")
	c.Join = rapid.IntRange(0, 5).Draw(t, "join") == 0
	c.Overwrite = rapid.IntRange(0, 2).Draw(t, "overwrite") == 0
	maxBytes := 200
	if c.Opts.TableSize == 0 {
		maxBytes = 200000
	} else if c.Opts.TableSize == 4096 {
		maxBytes = 3000
	}
	n := rapid.IntRange(1, 12).Draw(t, "items")
	seen := map[string]bool{}
	for i := 0; i < n; i++ {
		it := c17Item{Path: rapid.SampledFrom([]int{1, 2, 3, 6}).Draw(t, "path"), RP: rapid.SampledFrom([]int{1, 2, 3, 6}).Draw(t, "rp")}
		switch rapid.IntRange(0, 4).Draw(t, "kshape") {
		case 0:
			it.Key = rapid.SliceOfN(rapid.Byte(), 1, 16).Draw(t, "key")
		case 1:
			it.Key = bytes.Repeat([]byte{rapid.Byte().Draw(t, "kb")}, rapid.SampledFrom([]int{254, 255}).Draw(t, "klen"))
		case 2:
			it.Key = []byte("k\r\n\x00\xff key")
		case 3:
			it.Key = rapid.SliceOfN(rapid.Byte(), 100, 255).Draw(t, "key")
		default:
			it.Key = []byte(fmt.Sprintf("key-%d", i))
		}
		if seen[string(it.Key)] {
			continue
		}
		seen[string(it.Key)] = true
		room := maxBytes
		if c.Opts.TableSize != 0 {
			room = c.Opts.TableSize - 40 - len(it.Key)
			if room > maxBytes {
				room = maxBytes
			}
			if room < 1 {
				room = 1
			}
		}
		it.Val = genC17Val(t, room)
		c.Items = append(c.Items, it)
	}
	nr := rapid.IntRange(0, 3).Draw(t, "rejects")
	for i := 0; i < nr; i++ {
		r := c17Reject{Kind: rapid.SampledFrom([]string{"key", "entry"}).Draw(t, "rkind"), Path: rapid.SampledFrom([]int{1, 2, 3, 4, 5, 6}).Draw(t, "rpath")}
		if r.Kind == "key" {
			r.Delta = rapid.SampledFrom([]int{0, 1, 44, 300}).Draw(t, "kdelta") // key length 256+delta
		} else {
			r.Delta = rapid.IntRange(-2, 2).Draw(t, "edelta") // entry size = table size + delta
		}
		c.Rejects = append(c.Rejects, r)
	}
	return c
}

// c17Put writes the typed value and returns the error.
func c17Put(ctx context.Context, dm DMap, pipeline bool, key string, v c17Val) error {
	var val interface{}
	switch v.T {
	case "int":
		val = int(v.I)
	case "int8":
		val = int8(v.I)
	case "int16":
		val = int16(v.I)
	case "int32":
		val = int32(v.I)
	case "int64":
		val = v.I
	case "uint":
		val = uint(v.U)
	case "uint8":
		val = uint8(v.U)
	case "uint16":
		val = uint16(v.U)
	case "uint32":
		val = uint32(v.U)
	case "uint64":
		val = v.U
	case "float32":
		val = float32(v.float())
	case "float64":
		val = v.float()
	case "bool":
		val = v.I == 1
	case "string":
		val = string(v.B)
	case "bytes":
		val = append([]byte(nil), v.B...)
	case "time":
		val = time.Unix(v.I, int64(v.U)).In(time.FixedZone("z", int(v.F)*60))
	case "duration":
		val = time.Duration(v.I)
	case "binary":
		val = c17Bin{B: v.B}
	}
	if pipeline {
		pl, err := dm.Pipeline()
		if err != nil {
			return err
		}
		defer pl.Close()
		f, err := pl.Put(ctx, key, val)
		if err != nil {
			return err
		}
		if err := pl.Exec(ctx); err != nil {
			return err
		}
		return f.Result()
	}
	return dm.Put(ctx, key, val)
}

// c17Check reads the value back into the same type and compares.
func c17Check(gr *GetResponse, v c17Val) string {
	bad := func(got, want interface{}, err error) string {
		return fmt.Sprintf("%s: wrote %v, read back %v (err %v)", v.T, want, got, err)
	}
	switch v.T {
	case "int":
		got, err := gr.Int()
		if err != nil || got != int(v.I) {
			return bad(got, int(v.I), err)
		}
	case "int8":
		got, err := gr.Int8()
		if err != nil || got != int8(v.I) {
			return bad(got, v.I, err)
		}
	case "int16":
		got, err := gr.Int16()
		if err != nil || got != int16(v.I) {
			return bad(got, v.I, err)
		}
	case "int32":
		got, err := gr.Int32()
		if err != nil || got != int32(v.I) {
			return bad(got, v.I, err)
		}
	case "int64":
		got, err := gr.Int64()
		if err != nil || got != v.I {
			return bad(got, v.I, err)
		}
	case "uint":
		got, err := gr.Uint()
		if err != nil || got != uint(v.U) {
			return bad(got, v.U, err)
		}
	case "uint8":
		got, err := gr.Uint8()
		if err != nil || got != uint8(v.U) {
			return bad(got, v.U, err)
		}
	case "uint16":
		got, err := gr.Uint16()
		if err != nil || got != uint16(v.U) {
			return bad(got, v.U, err)
		}
	case "uint32":
		got, err := gr.Uint32()
		if err != nil || got != uint32(v.U) {
			return bad(got, v.U, err)
		}
	case "uint64":
		got, err := gr.Uint64()
		if err != nil || got != v.U {
			return bad(got, v.U, err)
		}
	case "float32":
		got, err := gr.Float32()
		want := float32(v.float())
		same := got == want && math.Signbit(float64(got)) == math.Signbit(float64(want))
		if want != want {
			same = got != got
		}
		if err != nil || !same {
			return bad(got, want, err)
		}
	case "float64":
		got, err := gr.Float64()
		want := v.float()
		same := got == want && math.Signbit(got) == math.Signbit(want)
		if want != want {
			same = got != got
		}
		if err != nil || !same {
			return bad(got, want, err)
		}
	case "bool":
		got, err := gr.Bool()
		if err != nil || got != (v.I == 1) {
			return bad(got, v.I == 1, err)
		}
	case "string":
		got, err := gr.String()
		if err != nil || got != string(v.B) {
			return fmt.Sprintf("string of %d bytes read back as %d bytes (err %v)", len(v.B), len(got), err)
		}
	case "bytes":
		got, err := gr.Byte()
		if err != nil || !bytes.Equal(got, v.B) {
			return fmt.Sprintf("byte slice of %d bytes read back as %d bytes (err %v)", len(v.B), len(got), err)
		}
	case "time":
		got, err := gr.Time()
		want := time.Unix(v.I, int64(v.U))
		if err != nil || !got.Equal(want) {
			return bad(got, want, err)
		}
	case "duration":
		got, err := gr.Duration()
		if err != nil || got != time.Duration(v.I) {
			return bad(got, time.Duration(v.I), err)
		}
	case "binary":
		var got c17Bin
		err := gr.Scan(&got)
		if err != nil || !bytes.Equal(got.B, v.B) {
			return fmt.Sprintf("BinaryMarshaler of %d bytes read back as %d bytes (err %v)", len(v.B), len(got.B), err)
		}
	}
	return ""
}

func c17Get(ctx context.Context, dm DMap, pipeline bool, key string) (*GetResponse, error) {
	if pipeline {
		pl, err := dm.Pipeline()
		if err != nil {
			return nil, err
		}
		defer pl.Close()
		f := pl.Get(ctx, key)
		if err := pl.Exec(ctx); err != nil {
			return nil, err
		}
		return f.Result()
	}
	return dm.Get(ctx, key)
}

func runC17(c *c17Case) (v *vcommon.Violation, nontrivial, inconclusive bool) {
	opts := c.Opts
	if opts.Replicas > opts.Members && !c.Join {
		opts.Replicas = opts.Members
	}
	var cl *vCluster
	var err error
	if c.Join {
		cl, err = vNewCluster(opts)
		if err == nil {
			defer cl.shutdown()
		}
	} else {
		cl, err = pooledCluster(opts)
	}
	if err != nil {
		return nil, false, true
	}
	ctx, cancel := context.WithTimeout(context.Background(), 90*time.Second)
	defer cancel()
	name := freshName("c17-")
	bad := func(class, format string, args ...interface{}) *vcommon.Violation {
		return vcommon.NewViolation("C17", "e2e", class, c, format, args...)
	}
	handle := func(path int, key string) (DMap, bool, error) {
		pc := &pathClient{cl: cl, dmap: name, path: path}
		dm, err := pc.dm(key)
		return dm, pc.effectivePath(key) == pPipeline, err
	}
	written := map[string]c17Val{}
	readAll := func(stage string) *vcommon.Violation {
		for _, it := range c.Items {
			key := string(it.Key)
			want := written[key]
			for _, path := range []int{it.RP, pOwnerEmb} {
				dm, pl, err := handle(path, key)
				if err != nil {
					return bad("client", "%s: cannot open the DMap: %v", stage, err)
				}
				gr, err := c17Get(ctx, dm, pl, key)
				if err != nil {
					return bad("lost:"+stage, "%s: Get(%q, %d-byte key) through %s failed: %v", stage, it.Key, len(it.Key), pathNames[path], err)
				}
				if msg := c17Check(gr, want); msg != "" {
					return bad("value:"+stage+":"+want.T, "%s: key %q through %s: %s", stage, it.Key, pathNames[path], msg)
				}
			}
		}
		return nil
	}
	if c.Overwrite {
		// every key first holds something else, and enough is written behind it to roll the storage tables over:
		// the values written below supersede versions that sit in older tables, on the primary and on the backup
		for i, it := range c.Items {
			dm, _, err := handle(pOwnerEmb, string(it.Key))
			if err != nil {
				return nil, nontrivial, true
			}
			if err := dm.Put(ctx, string(it.Key), []byte(fmt.Sprintf("an-earlier-value-%d", i))); err != nil {
				return nil, nontrivial, true
			}
		}
		if ts := c.Opts.TableSize; ts > 0 {
			dm, _, err := handle(pOwnerEmb, "filler")
			if err != nil {
				return nil, nontrivial, true
			}
			for i := 0; i < c.Opts.Partitions*4; i++ {
				if err := dm.Put(ctx, fmt.Sprintf("filler-%d", i), bytes.Repeat([]byte{'f'}, ts/3)); err != nil {
					return nil, nontrivial, true
				}
			}
			// the tables have rolled over; the fillers themselves go again (scans below compare key sets)
			for i := 0; i < c.Opts.Partitions*4; i++ {
				if _, err := dm.Delete(ctx, fmt.Sprintf("filler-%d", i)); err != nil {
					return nil, nontrivial, true
				}
			}
		}
	}
	for _, it := range c.Items {
		key := string(it.Key)
		dm, pl, err := handle(it.Path, key)
		if err != nil {
			return nil, nontrivial, true
		}
		if err := c17Put(ctx, dm, pl, key, it.Val); err != nil {
			if strings.HasPrefix(errClass(err), "other:") && !strings.Contains(err.Error(), "too large") {
				return bad("put-error", "Put(%d-byte key, %s value of %d bytes) through %s failed: %v", len(it.Key), it.Val.T, len(it.Val.B), pathNames[it.Path], err), nontrivial, false
			}
			return bad("put-error", "Put(%d-byte key, %s) through %s failed: %v", len(it.Key), it.Val.T, pathNames[it.Path], err), nontrivial, false
		}
		written[key] = it.Val
		if len(it.Key) >= 254 || it.Val.FS != "" || bytes.ContainsAny(it.Key, "\r\n\x00") {
			nontrivial = true
		}
	}
	if v := readAll("written"); v != nil {
		return v, nontrivial, false
	}
	// keys as a scan reports them
	if len(c.Items) > 0 {
		dm, _, err := handle(pCluster, string(c.Items[0].Key))
		if err != nil {
			return nil, nontrivial, true
		}
		got, err := scanAll(ctx, dm, 3)
		if err != nil {
			return bad("scan", "scan failed: %v", err), nontrivial, false
		}
		var want []string
		for k := range written {
			want = append(want, k)
		}
		sort.Strings(want)
		if strings.Join(got, "\x01") != strings.Join(want, "\x01") {
			return bad("scan-keys", "a scan yields keys %q, written %q", got, want), nontrivial, false
		}
	}
	if c.Overwrite {
		// compaction moves live entries between tables; afterwards every copy still holds what was written last
		for _, m := range cl.live() {
			for p := uint64(0); p < uint64(c.Opts.Partitions); p++ {
				m.db.dmap.VerifCompact(name, p, partitions.PRIMARY, 500)
				m.db.dmap.VerifCompact(name, p, partitions.BACKUP, 500)
			}
		}
		if v := readAll("compacted"); v != nil {
			return v, nontrivial, false
		}
	}
	// replication: the backup copy holds the same bytes as the primary copy
	if opts.Replicas >= 2 && len(cl.live()) >= 2 {
		for _, it := range c.Items {
			key := string(it.Key)
			p := decodeCopy(cl.ownerOf(name, key).db.dmap.VerifRaw(name, key, partitions.PRIMARY))
			for _, b := range cl.backupsOf(name, key) {
				bc := decodeCopy(b.db.dmap.VerifRaw(name, key, partitions.BACKUP))
				if !p.equal(bc) {
					return bad("replica-differs", "key %q: primary copy %d value bytes, backup copy on %s %v", it.Key, len(p.value), b.name, bc.present), nontrivial, false
				}
			}
		}
	}
	// migration: a member joins, fragments move, everything reads back from every path
	if c.Join {
		// superseded versions and deleted neighbours first: the tables that migrate then carry garbage
		for i, it := range c.Items {
			key := string(it.Key)
			dm, pl, err := handle(it.Path, key)
			if err != nil {
				return nil, nontrivial, true
			}
			if i%2 == 0 {
				if err := c17Put(ctx, dm, pl, key, it.Val); err != nil {
					return bad("put-error", "re-writing key %q failed: %v", it.Key, err), nontrivial, false
				}
			}
			gk := fmt.Sprintf("garbage-%d", i)
			if err := dm.Put(ctx, gk, []byte("to-be-deleted")); err == nil {
				_, _ = dm.Delete(ctx, gk)
			}
		}
		if _, err := cl.addMember(); err != nil {
			return nil, nontrivial, true
		}
		cl.cc = nil
		if err := cl.waitStable(20 * time.Second); err != nil {
			return nil, nontrivial, true
		}
		nontrivial = true
		if v := readAll("migrated"); v != nil {
			return v, nontrivial, false
		}
	}
	// rejections
	for ri, r := range c.Rejects {
		pc := &pathClient{cl: cl, dmap: name, path: r.Path, pick: ri}
		var key string
		var val []byte
		wantClass := ""
		if r.Kind == "key" {
			key = strings.Repeat("K", 256+r.Delta)
			val = []byte("v")
			wantClass = "keytoolarge"
		} else {
			if opts.TableSize == 0 {
				continue
			}
			key = fmt.Sprintf("big-%d", ri)
			n := opts.TableSize + r.Delta - 29 - len(key)
			val = bytes.Repeat([]byte{'e'}, n)
			if r.Delta >= 0 {
				wantClass = "entrytoolarge"
			}
		}
		nontrivial = true
		res := pc.put(ctx, key, val, putOpt{})
		switch {
		case wantClass == "" && res.Err != "":
			return bad("fits-but-rejected", "Put of an entry of table size%+d bytes through %s failed: %s", r.Delta, pathNames[r.Path], res.Err), nontrivial, false
		case wantClass != "" && res.Err == "":
			return bad("oversized-acknowledged:"+r.Kind, "Put with a %d-byte key / %d-byte value (R=%d) through %s was acknowledged, want %s", len(key), len(val), opts.Replicas, pathNames[r.Path], wantClass), nontrivial, false
		case wantClass != "" && opts.Replicas < 2 && res.Err != wantClass:
			return bad("wrong-rejection:"+r.Kind, "Put with a %d-byte key / %d-byte value through %s failed with %q, want %s", len(key), len(val), pathNames[r.Path], res.Err, wantClass), nontrivial, false
		}
		if wantClass == "" {
			written[key] = c17Val{T: "bytes", B: val}
			c.Items = append(c.Items, c17Item{Key: []byte(key), Val: written[key], Path: r.Path, RP: pCluster})
		}
		// nothing may be stored under a truncated or foreign key, on any member
		for _, m := range cl.live() {
			for p := uint64(0); p < uint64(opts.Partitions); p++ {
				for _, kind := range []partitions.Kind{partitions.PRIMARY, partitions.BACKUP} {
					for _, k := range m.db.dmap.VerifKeys(name, p, kind) {
						if _, ok := written[k]; !ok {
							return bad("foreign-key-stored", "after the rejected Put member %s stores key %q (%d bytes) in %s partition %d, which was never written", m.name, k, len(k), kind, p), nontrivial, false
						}
					}
				}
			}
		}
	}
	if len(c.Rejects) > 0 {
		if v := readAll("after-reject"); v != nil {
			return v, nontrivial, false
		}
	}
	return nil, nontrivial, false
}

func TestVerifC17(t *testing.T) {
	p := vcommon.Env()
	t.Cleanup(shutdownPool)
	if p.Replay != "" {
		v, err := vcommon.LoadViolation(p.Replay)
		if err != nil {
			t.Fatal(err)
		}
		c := &c17Case{}
		if err := json.Unmarshal(v.Case, c); err != nil {
			t.Fatal(err)
		}
		for i := 0; i < 2; i++ {
			got, _, _ := runC17(c)
			if got != nil {
				path := vcommon.SaveViolation(got)
				fmt.Printf("VERIF-VIOLATION %s %s\n", path, got.Message)
				t.Fatalf("replay still fails: %s", got.Message)
			}
		}
		return
	}
	col := vcommon.NewCollector("C17", "e2e")
	t.Cleanup(col.Flush)
	rapid.Check(t, func(rt *rapid.T) {
		c := genC17(rt)
		orig := vcommon.MustJSON(c)
		v, nt, inc := runC17(c)
		if inc || (v != nil && transportNoise(v.Message)) {
			col.Inconclusive()
			return
		}
		labels := []string{fmt.Sprintf("replicas:%d", c.Opts.Replicas)}
		if c.Join {
			labels = append(labels, "join")
		}
		col.Record(orig, nt, labels...)
		if v != nil {
			if vcommon.Known(v.Class) {
				col.ExcludedKnown()
				return
			}
			v.Case = orig
			vcommon.SaveViolation(v)
			rt.Fatalf("%s", v.Message)
		}
	})
}
