package olric

// C01: per-key linearizability in a stable cluster, from any entry point.

import (
	"context"
	"encoding/json"
	"fmt"
	"os"
	"strings"
	"sync"
	"sync/atomic"
	"testing"
	"time"

	"github.com/anishathalye/porcupine"
	"github.com/olric-data/olric/internal/cluster/partitions"
	"github.com/olric-data/olric/internal/verifhook"
	"github.com/olric-data/olric/internal/zzverif/vcommon"
	"pgregory.net/rapid"
)

type c01Op struct {
	Kind string `json:"kind"` // put nx xx get del fill
	K    int    `json:"k"`
	Path int    `json:"path"`
	Pick int    `json:"pick,omitempty"`
	Size int    `json:"size,omitempty"` // value padding in percent of the table size
	VP   int    `json:"vp,omitempty"`   // sequential shape: path of the read-back
}

type c01Case struct {
	Opts    vOpts     `json:"opts"`
	Shape   string    `json:"shape"` // seq | conc
	Keys    int       `json:"keys"`
	Fillers int       `json:"fillers"`
	YieldUs int       `json:"yield_us,omitempty"`
	Janitor bool      `json:"janitor,omitempty"` // the empty-fragment janitor runs between "fragment loaded" and "fragment locked" of every write
	Clients [][]c01Op `json:"clients"`
}

type c01Event struct {
	Client int    `json:"client"`
	Kind   string `json:"kind"`
	Key    string `json:"key"`
	Val    string `json:"val,omitempty"`
	Path   int    `json:"path"`
	Res    vRes   `json:"res"`
}

func genC01(t *rapid.T, shape string) *c01Case {
	c := &c01Case{Shape: shape}
	c.Opts.Members = rapid.IntRange(1, 3).Draw(t, "members")
	c.Opts.Replicas = rapid.IntRange(1, c.Opts.Members).Draw(t, "replicas")
	c.Opts.Partitions = rapid.SampledFrom([]int{1, 7, 13}).Draw(t, "partitions")
	if c.Opts.Partitions < c.Opts.Members {
		c.Opts.Partitions = 7
	}
	c.Opts.TableSize = rapid.SampledFrom([]int{512, 1024, 4096, 0}).Draw(t, "tableSize")
	c.Keys = rapid.IntRange(1, 3).Draw(t, "keys")
	c.Fillers = rapid.IntRange(0, 4).Draw(t, "fillers")
	kinds := []string{"put", "put", "nx", "xx", "get", "get", "del", "fill"}
	genOp := func() c01Op {
		op := c01Op{Kind: rapid.SampledFrom(kinds).Draw(t, "kind")}
		op.K = rapid.IntRange(0, c.Keys-1).Draw(t, "k")
		op.Path = rapid.IntRange(1, 5).Draw(t, "path")
		op.Pick = rapid.IntRange(0, 2).Draw(t, "pick")
		op.VP = rapid.IntRange(1, 5).Draw(t, "vp")
		if op.Kind == "fill" {
			if c.Fillers == 0 {
				op.Kind = "put"
			} else {
				op.K = rapid.IntRange(0, c.Fillers-1).Draw(t, "fk")
			}
		}
		if op.Kind != "get" && op.Kind != "del" {
			op.Size = rapid.SampledFrom([]int{0, 0, 10, 25, 45}).Draw(t, "size")
		}
		return op
	}
	c.Janitor = rapid.IntRange(0, 2).Draw(t, "janitor") == 0
	c.Opts.NoJanitor = c.Janitor // the harness-driven pass stands in for the member's single janitor goroutine
	if shape == "seq" {
		n := rapid.IntRange(20, 80).Draw(t, "steps")
		var ops []c01Op
		for i := 0; i < n; i++ {
			ops = append(ops, genOp())
		}
		c.Clients = [][]c01Op{ops}
		return c
	}
	c.YieldUs = rapid.SampledFrom([]int{0, 50, 500}).Draw(t, "yield")
	if c.Opts.Replicas >= 2 && os.Getenv("VERIF_C01_READREPAIR") != "" {
		// exploratory dimension (not part of the registered check): read-repair with a delay between gathering
		// the versions and repairing
		c.Opts.ReadRepair = rapid.Bool().Draw(t, "readRepair")
	}
	nc := rapid.IntRange(2, 6).Draw(t, "clients")
	for i := 0; i < nc; i++ {
		n := rapid.IntRange(3, 15).Draw(t, "steps")
		var ops []c01Op
		for j := 0; j < n; j++ {
			ops = append(ops, genOp())
		}
		c.Clients = append(c.Clients, ops)
	}
	return c
}

func c01Value(client, seq int, op c01Op, tableSize int) []byte {
	v := fmt.Sprintf("c%d-%d", client, seq)
	ts := tableSize
	if ts == 0 {
		ts = 4096 // large tables: padding only makes values bigger
	}
	pad := ts*op.Size/100 - len(v)
	if pad > 0 {
		v += "|" + strings.Repeat("x", pad)
	}
	return []byte(v)
}

var c01JanitorBudget int64

var (
	c01JanitorMu    sync.Mutex
	c01JanitorLocks = map[string]*sync.Mutex{}
)

func c01JanitorLock(member string) *sync.Mutex {
	c01JanitorMu.Lock()
	defer c01JanitorMu.Unlock()
	mu, ok := c01JanitorLocks[member]
	if !ok {
		mu = &sync.Mutex{}
		c01JanitorLocks[member] = mu
	}
	return mu
}

func c01Exec(ctx context.Context, cl *vCluster, name string, keys, fillers []string, client, seq int, op c01Op, tableSize int) c01Event {
	atomic.StoreInt64(&c01JanitorBudget, 1)
	pc := &pathClient{cl: cl, dmap: name, path: op.Path, pick: op.Pick}
	ev := c01Event{Client: client, Kind: op.Kind, Path: op.Path}
	switch op.Kind {
	case "fill":
		ev.Key = fillers[op.K]
		val := c01Value(client, seq, op, tableSize)
		ev.Val = string(val)
		ev.Res = pc.put(ctx, ev.Key, val, putOpt{})
	case "put", "nx", "xx":
		ev.Key = keys[op.K]
		val := c01Value(client, seq, op, tableSize)
		ev.Val = string(val)
		o := putOpt{}
		if op.Kind == "nx" {
			o.Cond = "NX"
		}
		if op.Kind == "xx" {
			o.Cond = "XX"
		}
		ev.Res = pc.put(ctx, ev.Key, val, o)
	case "get":
		ev.Key = keys[op.K]
		ev.Res = pc.get(ctx, ev.Key)
	case "del":
		ev.Key = keys[op.K]
		ev.Res = pc.del(ctx, ev.Key)
	}
	return ev
}

// regStep is the sequential specification of one key: state "" = absent.
func regStep(state string, ev c01Event) (bool, string) {
	switch ev.Kind {
	case "put", "fill":
		return ev.Res.Err == "", ev.Val
	case "nx":
		if state != "" {
			return ev.Res.Err == "keyfound", state
		}
		return ev.Res.Err == "", ev.Val
	case "xx":
		if state == "" {
			return ev.Res.Err == "notfound", state
		}
		return ev.Res.Err == "", ev.Val
	case "get":
		if state == "" {
			return ev.Res.Err == "notfound", state
		}
		return ev.Res.Err == "" && ev.Res.Found && string(ev.Res.Val) == state, state
	case "del":
		return ev.Res.Err == "", ""
	}
	return false, state
}

var c01Model = porcupine.Model{
	Partition: func(history []porcupine.Operation) [][]porcupine.Operation {
		m := map[string][]porcupine.Operation{}
		var order []string
		for _, op := range history {
			k := op.Input.(c01Event).Key
			if _, ok := m[k]; !ok {
				order = append(order, k)
			}
			m[k] = append(m[k], op)
		}
		var out [][]porcupine.Operation
		for _, k := range order {
			out = append(out, m[k])
		}
		return out
	},
	Init: func() interface{} { return "" },
	Step: func(state, input, output interface{}) (bool, interface{}) {
		ok, ns := regStep(state.(string), input.(c01Event))
		return ok, ns
	},
	Equal: func(a, b interface{}) bool { return a.(string) == b.(string) },
	DescribeOperation: func(input, output interface{}) string {
		ev := input.(c01Event)
		return fmt.Sprintf("%s(%s,%.12s)->%s", ev.Kind, ev.Key, ev.Val, ev.Res.String())
	},
}

func runC01(c *c01Case) (v *vcommon.Violation, labels []string, nontrivial, inconclusive bool) {
	cl, err := pooledCluster(c.Opts)
	if err != nil {
		return nil, nil, false, true
	}
	ctx, cancel := context.WithTimeout(context.Background(), 60*time.Second)
	defer cancel()
	name := freshName("c01-")
	keys := []string{"hot-a", "hot-b", "hot-c"}[:c.Keys]
	fillers := []string{"fill-0", "fill-1", "fill-2", "fill-3"}[:c.Fillers]
	fail := func(class string, hist []c01Event, format string, args ...interface{}) *vcommon.Violation {
		v := vcommon.NewViolation("C01", c.Shape, class, c, format, args...)
		v.History = vcommon.MustJSON(hist)
		return v
	}
	multiTable := func(key string) bool {
		owner := cl.ownerOf(name, key)
		hkey := partitions.HKey(name, key)
		partID := owner.db.primary.PartitionByHKey(hkey).ID()
		st, ok := owner.db.dmap.VerifFragmentStats(name, partID, partitions.PRIMARY)
		return ok && st.NumTables >= 2
	}

	if c.Janitor {
		// a janitor pass at the worst moment: after a writer obtained the fragment, before it locked it
		h := func(args ...string) {
			// one pass per client operation: a pass on every retry would wipe the fresh, still empty
			// fragment again and again (the real janitor runs periodically)
			if atomic.AddInt64(&c01JanitorBudget, -1) < 0 {
				return
			}
			if len(args) > 0 {
				if m := cl.byName(args[0]); m != nil {
					// like the real janitor the pass runs in its own goroutine: it may have to wait for fragment
					// locks held by requests that in turn wait for this one (replication), so do not wait for long
					// a member has ONE janitor goroutine: passes never overlap (two overlapping passes could
					// remove each other's successor fragment, which the real worker cannot do)
					done := make(chan struct{})
					go func() {
						defer close(done)
						mu := c01JanitorLock(m.name)
						if !mu.TryLock() {
							return
						}
						defer mu.Unlock()
						m.db.dmap.VerifJanitor()
					}()
					select {
					case <-done:
					case <-time.After(5 * time.Millisecond):
					}
				}
			}
		}
		verifhook.Set("put.fragmentLoaded", h) // before the fragment is looked up
		verifhook.Set("fragment.loaded", h)    // between looking it up and locking it
		defer verifhook.Set("put.fragmentLoaded", nil)
		defer verifhook.Set("fragment.loaded", nil)
	}
	if c.Shape == "seq" {
		model := map[string]string{}
		var hist []c01Event
		for i, op := range c.Clients[0] {
			ev := c01Exec(ctx, cl, name, keys, fillers, 0, i, op, c.Opts.TableSize)
			hist = append(hist, ev)
			if strings.HasPrefix(ev.Res.Err, "other:") {
				return nil, labels, nontrivial, true
			}
			_, had := model[ev.Key]
			if had && (op.Kind == "del" || op.Kind == "get" || op.Kind == "put") && multiTable(ev.Key) {
				nontrivial = true
			}
			ok, ns := regStep(model[ev.Key], ev)
			if !ok {
				cut := *c
				cut.Clients = [][]c01Op{c.Clients[0][:i+1]}
				vv := vcommon.NewViolation("C01", c.Shape, "seq:"+op.Kind, &cut, "step %d: %s(%s) through %s returned %s, model state %.30q", i, op.Kind, ev.Key, pathNames[op.Path], ev.Res.String(), model[ev.Key])
				vv.History = vcommon.MustJSON(hist)
				return vv, labels, nontrivial, false
			}
			if ns == "" {
				delete(model, ev.Key)
			} else {
				model[ev.Key] = ns
			}
			// read back through a second path
			if op.Kind != "get" && op.Kind != "fill" {
				rb := c01Exec(ctx, cl, name, keys, fillers, 0, i, c01Op{Kind: "get", K: op.K, Path: op.VP, Pick: op.Pick + 1}, c.Opts.TableSize)
				hist = append(hist, rb)
				if ok, _ := regStep(model[rb.Key], rb); !ok {
					cut := *c
					cut.Clients = [][]c01Op{c.Clients[0][:i+1]}
					vv := vcommon.NewViolation("C01", c.Shape, "seq-readback:"+op.Kind, &cut, "step %d: after %s(%s) through %s, Get through %s returned %s, model state %.30q", i, op.Kind, ev.Key, pathNames[op.Path], pathNames[op.VP], rb.Res.String(), model[rb.Key])
					vv.History = vcommon.MustJSON(hist)
					return vv, labels, nontrivial, false
				}
			}
		}
		for _, k := range keys {
			if multiTable(k) {
				labels = append(labels, "multi-table")
				break
			}
		}
		return nil, labels, nontrivial, false
	}

	// concurrent shape
	if c.YieldUs > 0 {
		d := time.Duration(c.YieldUs) * time.Microsecond
		verifhook.Set("put.afterCheck", func(args ...string) { time.Sleep(d) })
		defer verifhook.Set("put.afterCheck", nil)
		if c.Opts.ReadRepair {
			verifhook.Set("get.afterLookup", func(args ...string) { time.Sleep(d) })
			defer verifhook.Set("get.afterLookup", nil)
		}
	}
	var mu sync.Mutex
	var hist []c01Event
	var wg sync.WaitGroup
	start := make(chan struct{})
	for ci, prog := range c.Clients {
		wg.Add(1)
		go func(ci int, prog []c01Op) {
			defer wg.Done()
			<-start
			for i, op := range prog {
				ev := c01Exec(ctx, cl, name, keys, fillers, ci, i, op, c.Opts.TableSize)
				mu.Lock()
				hist = append(hist, ev)
				mu.Unlock()
			}
		}(ci, prog)
	}
	close(start)
	wg.Wait()
	var ops []porcupine.Operation
	for _, ev := range hist {
		if strings.HasPrefix(ev.Res.Err, "other:") {
			return nil, labels, false, true
		}
		ops = append(ops, porcupine.Operation{ClientId: ev.Client, Input: ev, Call: ev.Res.Inv, Output: ev.Res, Return: ev.Res.Ret})
	}
	// non-triviality: two clients on different paths overlap on one key with a write and a read/conditional
	for i := range hist {
		for j := range hist {
			a, b := hist[i], hist[j]
			if a.Key != b.Key || a.Client == b.Client || a.Path == b.Path {
				continue
			}
			if a.Res.Inv < b.Res.Ret && b.Res.Inv < a.Res.Ret {
				aw := a.Kind == "put" || a.Kind == "del" || a.Kind == "nx" || a.Kind == "xx"
				br := b.Kind == "get" || b.Kind == "nx" || b.Kind == "xx"
				if aw && br {
					nontrivial = true
				}
			}
		}
	}
	res := porcupine.CheckOperationsTimeout(c01Model, ops, 10*time.Second)
	switch res {
	case porcupine.Unknown:
		return nil, labels, nontrivial, true
	case porcupine.Illegal:
		// "while cluster membership is stable": if the members do not agree on who is there and who owns the hot
		// keys, the history was not recorded on a stable cluster and says nothing about the property
		views := map[string]bool{}
		for _, m := range cl.live() {
			view := fmt.Sprintf("members=%d/%d", m.db.rt.NumMembers(), m.db.rt.Discovery().NumMembers())
			for _, k := range keys {
				for _, o := range m.db.primary.PartitionOwnersByHKey(partitions.HKey(name, k)) {
					view += " " + o.String()
				}
				view += ";"
			}
			views[view] = true
		}
		if len(views) != 1 || !cl.stableNow() {
			return nil, labels, nontrivial, true
		}
		return fail("not-linearizable", hist, "the recorded history of %d operations has no legal sequential order (per-key register with NX/XX)", len(hist)), labels, nontrivial, false
	}
	// final agreement: every member reads the same value for every hot key
	for _, k := range keys {
		var first string
		for i, path := range []int{pOwnerEmb, pOtherEmb, pCluster, pOtherRaw} {
			g := (&pathClient{cl: cl, dmap: name, path: path, pick: i}).get(ctx, k)
			if strings.HasPrefix(g.Err, "other:") {
				// a read that failed at the transport level (timeout on a loaded machine) decides nothing
				return nil, labels, nontrivial, true
			}
			s := g.Err + "|" + string(g.Val)
			if i == 0 {
				first = s
			} else if s != first {
				return fail("final-disagreement", hist, "after the run key %s reads %.40q through P1 and %.40q through %s", k, first, s, pathNames[path]), labels, nontrivial, false
			}
		}
	}
	return nil, labels, nontrivial, false
}

func c01Test(t *testing.T, shape string) {
	p := vcommon.Env()
	t.Cleanup(shutdownPool)
	if p.Replay != "" {
		v, err := vcommon.LoadViolation(p.Replay)
		if err != nil {
			t.Fatal(err)
		}
		c := &c01Case{}
		if err := json.Unmarshal(v.Case, c); err != nil {
			t.Fatal(err)
		}
		if c.Shape != shape {
			return
		}
		n := 3
		if shape == "conc" {
			n = 50
		}
		for i := 0; i < n; i++ {
			got, _, _, _ := runC01(c)
			if got != nil {
				path := vcommon.SaveViolation(got)
				fmt.Printf("VERIF-VIOLATION %s %s\n", path, got.Message)
				t.Fatalf("replay still fails: %s", got.Message)
			}
		}
		return
	}
	col := vcommon.NewCollector("C01", shape)
	t.Cleanup(col.Flush)
	rapid.Check(t, func(rt *rapid.T) {
		c := genC01(rt, shape)
		v, labels, nt, inc := runC01(c)
		if inc || (v != nil && vFlapsSinceMark() > 0) {
			col.Inconclusive()
			return
		}
		labels = append(labels, fmt.Sprintf("members:%d", c.Opts.Members), fmt.Sprintf("replicas:%d", c.Opts.Replicas), fmt.Sprintf("table:%d", c.Opts.TableSize))
		col.Record(vcommon.MustJSON(c), nt, labels...)
		if v != nil {
			if vcommon.Known(v.Class) {
				col.ExcludedKnown()
				return
			}
			vcommon.SaveViolation(v)
			rt.Fatalf("%s", v.Message)
		}
	})
}

func TestVerifC01Seq(t *testing.T)  { c01Test(t, "seq") }
func TestVerifC01Conc(t *testing.T) { c01Test(t, "conc") }
