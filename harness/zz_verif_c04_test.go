package olric

// C04: every backup copy mirrors the primary after each acknowledged operation.

import (
	"bytes"
	"context"
	"encoding/json"
	"fmt"
	"sync"
	"testing"
	"time"

	"github.com/olric-data/olric/internal/cluster/partitions"
	"github.com/olric-data/olric/internal/kvstore/entry"
	"github.com/olric-data/olric/internal/verifhook"
	"github.com/olric-data/olric/internal/zzverif/vcommon"
	"pgregory.net/rapid"
)

type c04Op struct {
	Op    string `json:"op"` // put expire getput incr decr incrbyfloat del lock unlock lease expiresoon evict
	K     int    `json:"k"`
	Path  int    `json:"path"`
	Opt   putOpt `json:"opt,omitempty"`
	Ms    int64  `json:"ms,omitempty"`
	Delta int    `json:"delta,omitempty"`
	Pick  int    `json:"pick,omitempty"`
	Pad   int    `json:"pad,omitempty"` // value padding in percent of the table size: rolls the fragment over to new tables
}

type c04Case struct {
	Opts vOpts   `json:"opts"`
	Keys int     `json:"keys"`
	Ops  []c04Op `json:"ops"`
}

func genC04(t *rapid.T) *c04Case {
	c := &c04Case{}
	c.Opts.Members = rapid.IntRange(2, 4).Draw(t, "members")
	c.Opts.Replicas = rapid.IntRange(2, 3).Draw(t, "replicas")
	if c.Opts.Replicas > c.Opts.Members {
		c.Opts.Replicas = c.Opts.Members
	}
	c.Opts.Partitions = rapid.SampledFrom([]int{7, 13}).Draw(t, "partitions")
	c.Opts.TableSize = rapid.SampledFrom([]int{0, 512, 2048}).Draw(t, "tableSize")
	if rapid.IntRange(0, 5).Draw(t, "lru") == 0 {
		c.Opts.MaxKeys = c.Opts.Partitions * rapid.IntRange(1, 2).Draw(t, "maxkeys")
		c.Opts.LRUSamples = 5
	}
	c.Keys = rapid.IntRange(1, 3).Draw(t, "keys")
	n := rapid.IntRange(3, 25).Draw(t, "nops")
	kinds := []string{"put", "put", "put", "fill", "fill", "expire", "getput", "incr", "decr", "incrbyfloat", "del", "lock", "unlock", "lease", "expiresoon", "evict", "overtake"}
	for i := 0; i < n; i++ {
		op := c04Op{Op: rapid.SampledFrom(kinds).Draw(t, "op")}
		op.K = rapid.IntRange(0, c.Keys-1).Draw(t, "k")
		op.Path = rapid.IntRange(1, 6).Draw(t, "path")
		op.Pick = rapid.IntRange(0, 3).Draw(t, "pick")
		switch op.Op {
		case "fill":
			op.Pad = rapid.SampledFrom([]int{20, 35, 45}).Draw(t, "pad")
		case "put":
			op.Pad = rapid.SampledFrom([]int{0, 0, 0, 20, 45}).Draw(t, "pad")
			op.Opt.Cond = rapid.SampledFrom([]string{"", "", "NX", "XX"}).Draw(t, "cond")
			op.Opt.Exp = rapid.SampledFrom([]string{"", "", "EX", "PX", "EXAT", "PXAT"}).Draw(t, "exp")
			if op.Opt.Exp != "" {
				op.Opt.Ms = rapid.SampledFrom([]int64{30000, 3600000}).Draw(t, "ms")
			}
		case "expire", "lease":
			op.Ms = rapid.SampledFrom([]int64{20000, 40000}).Draw(t, "ms")
		case "incr", "decr":
			op.Delta = rapid.IntRange(1, 9).Draw(t, "delta")
		case "lock":
			op.Ms = rapid.SampledFrom([]int64{0, 25000}).Draw(t, "timeout")
		case "expiresoon":
			op.Ms = rapid.Int64Range(1, 4).Draw(t, "ms")
		}
		c.Ops = append(c.Ops, op)
	}
	return c
}

type rawCopy struct {
	present bool
	key     string
	value   []byte
	ttl     int64
	ts      int64
}

func decodeCopy(raw []byte, ok bool) rawCopy {
	if !ok {
		return rawCopy{}
	}
	e := entry.New()
	e.Decode(raw)
	return rawCopy{present: true, key: e.Key(), value: append([]byte(nil), e.Value()...), ttl: e.TTL(), ts: e.Timestamp()}
}

func (a rawCopy) equal(b rawCopy) bool {
	if a.present != b.present {
		return false
	}
	if !a.present {
		return true
	}
	return a.key == b.key && bytes.Equal(a.value, b.value) && a.ttl == b.ttl && a.ts == b.ts
}

func (a rawCopy) String() string {
	if !a.present {
		return "absent"
	}
	return fmt.Sprintf("(key %q value %q ttl %d ts %d)", a.key, a.value, a.ttl, a.ts)
}

// mirrorCheck compares the primary copy of a key with every backup copy. The
// primary is read before and after the backups; the comparison is made only on
// a stable snapshot (background eviction of an expired key may run in between).
func mirrorCheck(cl *vCluster, name, key string) (string, bool) {
	owner := cl.ownerOf(name, key)
	backups := cl.backupsOf(name, key)
outer:
	for attempt := 0; attempt < 20; attempt++ {
		p1 := decodeCopy(owner.db.dmap.VerifRaw(name, key, partitions.PRIMARY))
		var bs []rawCopy
		for _, b := range backups {
			bs = append(bs, decodeCopy(b.db.dmap.VerifRaw(name, key, partitions.BACKUP)))
		}
		p2 := decodeCopy(owner.db.dmap.VerifRaw(name, key, partitions.PRIMARY))
		if !p1.equal(p2) {
			time.Sleep(time.Millisecond)
			continue
		}
		for i, b := range bs {
			if !b.equal(p1) {
				// an expired key may be evicted on the primary (backups first) at any moment: re-read
				if attempt < 3 {
					time.Sleep(2 * time.Millisecond)
					continue outer
				}
				// a difference that is a state, not a moment, is still there a quarter of a second later
				if attempt < 12 {
					time.Sleep(25 * time.Millisecond)
					continue outer
				}
				return fmt.Sprintf("key %q: primary on %s holds %v, backup on %s holds %v", key, owner.name, p1, backups[i].name, b), false
			}
		}
		return "", true
	}
	return "", true // never saw a stable snapshot: not decided
}

func runC04(c *c04Case) (v *vcommon.Violation, nontrivial bool, inconclusive bool) {
	cl, err := pooledCluster(c.Opts)
	if err != nil {
		return nil, false, true
	}
	ctx, cancel := context.WithTimeout(context.Background(), 60*time.Second)
	defer cancel()
	// DMap names of all shapes are legal; these start with letters that also occur in the fragment prefix "dmap."
	name := freshName([]string{"c04-", "d04-", "map-", ".p"}[len(c.Ops)%4])
	keys := []string{"alpha", "b", "key-three"}[:c.Keys]
	tokens := map[int][]byte{}
	existing := map[int]bool{}
	fail := func(step int, class, format string, args ...interface{}) *vcommon.Violation {
		cut := *c
		if step+1 < len(cut.Ops) {
			cut.Ops = cut.Ops[:step+1]
		}
		v := vcommon.NewViolation("C04", "mirror", class, &cut, format, args...)
		v.Message = fmt.Sprintf("step %d %s: %s", step, vcommon.MustJSON(c.Ops[step]), v.Message)
		return v
	}
	for i, op := range c.Ops {
		key := keys[op.K]
		pc := &pathClient{cl: cl, dmap: name, path: op.Path, pick: op.Pick}
		var r vRes
		class := op.Op
		switch op.Op {
		case "fill":
			// a neighbour key of the same partition family: large values move the write position to newer tables
			ts := c.Opts.TableSize
			if ts == 0 {
				ts = 2048
			}
			r = pc.put(ctx, fmt.Sprintf("%s-fill%d", key, i%3), bytes.Repeat([]byte{'f'}, ts*op.Pad/100), putOpt{})
		case "put":
			val := []byte(fmt.Sprintf("v%d", i))
			if ts := c.Opts.TableSize; ts > 0 && op.Pad > 0 {
				val = append(val, bytes.Repeat([]byte{'p'}, ts*op.Pad/100)...)
			}
			r = pc.put(ctx, key, val, op.Opt)
			if existing[op.K] && (op.Opt.Cond != "" || op.Opt.Exp != "") {
				nontrivial = true
			}
			class = "put" + op.Opt.Cond + op.Opt.Exp
		case "expire":
			r = pc.expire(ctx, key, op.Ms, i%2 == 0)
		case "getput":
			r = pc.getput(ctx, key, []byte(fmt.Sprintf("g%d", i)))
		case "incr", "decr":
			r = pc.incr(ctx, key, op.Delta, op.Op == "decr")
		case "incrbyfloat":
			// the current value may not be a number: the error is fine, only the copies matter
			r = pc.incrByFloat(ctx, key, 0.5)
		case "del":
			r = pc.del(ctx, key)
		case "lock":
			r = pc.lock(ctx, key, op.Ms, 5)
			if r.Err == "" {
				tokens[op.K] = r.Token
			}
		case "unlock":
			tok := tokens[op.K]
			if tok == nil {
				tok = []byte{1, 2, 3}
			}
			r = pc.unlock(ctx, key, tok)
		case "lease":
			tok := tokens[op.K]
			if tok == nil {
				tok = []byte{1, 2, 3}
			}
			r = pc.lease(ctx, key, tok, op.Ms)
		case "expiresoon":
			r = pc.put(ctx, key, []byte("soon"), putOpt{Exp: "PX", Ms: op.Ms})
			time.Sleep(time.Duration(op.Ms+3) * time.Millisecond)
			cl.ownerOf(name, key).db.dmap.VerifEvict(name, key)
		case "evict":
			cl.ownerOf(name, key).db.dmap.VerifEvict(name, key)
		case "overtake":
			// Two Puts on one key through its owner. The first is held between taking its write timestamp and
			// locking the fragment until the second has completed: the copy written last carries the older
			// timestamp. Both are acknowledged; the copies must still be identical.
			owner := cl.ownerOf(name, key)
			gate, entered := make(chan struct{}), make(chan struct{}, 1)
			var once sync.Once
			verifhook.Set("put.fragmentLoaded", func(args ...string) {
				if len(args) >= 2 && args[0] == owner.name && args[1] == key {
					first := false
					once.Do(func() { first = true })
					if first {
						entered <- struct{}{}
						<-gate
					}
				}
			})
			slow := make(chan vRes, 1)
			go func() {
				slow <- (&pathClient{cl: cl, dmap: name, path: pOwnerEmb}).put(ctx, key, []byte(fmt.Sprintf("slow%d", i)), putOpt{})
			}()
			select {
			case <-entered:
				time.Sleep(2 * time.Millisecond) // a later millisecond for the second writer's timestamp is not needed (ns), but harmless
				r = pc.put(ctx, key, []byte(fmt.Sprintf("fast%d", i)), putOpt{})
				nontrivial = true
			case <-time.After(2 * time.Second):
			}
			close(gate)
			if rs := <-slow; r.Err == "" {
				r = rs
			}
			verifhook.Set("put.fragmentLoaded", nil)
		}
		if existing[op.K] && op.Op != "put" && op.Op != "evict" {
			nontrivial = true
		}
		if len(r.Err) > 6 && r.Err[:6] == "other:" && op.Op != "incrbyfloat" && op.Op != "incr" && op.Op != "decr" {
			return fail(i, "unexpected-error:"+op.Op, "%s through %s failed: %s", op.Op, pathNames[op.Path], r.Err), nontrivial, false
		}
		for k, kk := range keys {
			msg, ok := mirrorCheck(cl, name, kk)
			if !ok {
				return fail(i, "mirror:"+class, "after %s through %s: %s", op.Op, pathNames[op.Path], msg), nontrivial, false
			}
			existing[k] = cl.ownerOf(name, kk).db.dmap.VerifCheck(name, kk, partitions.PRIMARY)
		}
		// behavioural twin once in a while: DM.GETENTRY against the owner and DM.GETENTRY RC against each backup
		if i%4 == 3 {
			owner := cl.ownerOf(name, key)
			pb, perr := owner.rc.Do(ctx, "DM.GETENTRY", name, key).Text()
			for _, b := range cl.backupsOf(name, key) {
				bb, berr := b.rc.Do(ctx, "DM.GETENTRY", name, key, "RC").Text()
				pc1, bc1 := rawCopy{}, rawCopy{}
				if perr == nil {
					pc1 = decodeCopy([]byte(pb), true)
				}
				if berr == nil {
					bc1 = decodeCopy([]byte(bb), true)
				}
				if (perr != nil && errClass(perr) != "notfound") || (berr != nil && errClass(berr) != "notfound") {
					continue
				}
				if !pc1.equal(bc1) {
					// re-validate on a stable white-box snapshot before reporting
					if msg, ok := mirrorCheck(cl, name, key); !ok {
						return fail(i, "getentry:"+class, "DM.GETENTRY on owner gives %v, DM.GETENTRY RC on %s gives %v (%s)", pc1, b.name, bc1, msg), nontrivial, false
					}
				}
			}
		}
	}
	return nil, nontrivial, false
}

func TestVerifC04(t *testing.T) {
	p := vcommon.Env()
	t.Cleanup(shutdownPool)
	if p.Replay != "" {
		v, err := vcommon.LoadViolation(p.Replay)
		if err != nil {
			t.Fatal(err)
		}
		c := &c04Case{}
		if err := json.Unmarshal(v.Case, c); err != nil {
			t.Fatal(err)
		}
		for i := 0; i < 3; i++ {
			got, _, _ := runC04(c)
			if got != nil {
				path := vcommon.SaveViolation(got)
				fmt.Printf("VERIF-VIOLATION %s %s\n", path, got.Message)
				t.Fatalf("replay still fails: %s", got.Message)
			}
		}
		return
	}
	col := vcommon.NewCollector("C04", "mirror")
	t.Cleanup(col.Flush)
	rapid.Check(t, func(rt *rapid.T) {
		c := genC04(rt)
		v, nt, inc := runC04(c)
		// a replica write that failed (a time-out on a busy machine) leaves an acknowledged operation with one copy
		// fewer: the cluster was not healthy, which the property presupposes
		if inc || (v != nil && (transportNoise(v.Message) || vReplicaErrorsSinceMark() > 0)) {
			col.Inconclusive()
			return
		}
		labels := []string{fmt.Sprintf("replicas:%d", c.Opts.Replicas), fmt.Sprintf("members:%d", c.Opts.Members)}
		seen := map[string]bool{}
		for _, op := range c.Ops {
			if !seen[op.Op] {
				seen[op.Op] = true
				labels = append(labels, "op:"+op.Op)
			}
		}
		if c.Opts.MaxKeys > 0 {
			labels = append(labels, "lru")
		}
		col.Record(vcommon.MustJSON(c), nt, labels...)
		if v != nil {
			if vcommon.Known(v.Class) {
				col.ExcludedKnown()
				return
			}
			vcommon.SaveViolation(v)
			rt.Fatalf("%s", v.Message)
		}
	})
}
