package olric

// C03, part "race": a write that is in flight on the previous owner while its fragment is handed over.
//
// The stepped part (zz_verif_c03_test.go) places operations between the steps of a hand-over. This part places one
// inside a step: a Put has passed the owner check on the member that owns its key and is held right before it takes
// the fragment lock (hook put.fragmentLoaded); a member joins, the routing table is pushed, and the balancer of the
// old owner moves the fragment; at a chosen table move (hook move.afterSend, or move.beforeDrop) the Put is let go
// while the move is still in progress. Whatever the interleaving, once the hand-over has finished the acknowledged
// Put must be readable from every member, and so must every other key.

import (
	"bytes"
	"context"
	"encoding/json"
	"fmt"
	"sync"
	"testing"
	"time"

	"github.com/olric-data/olric/internal/cluster/partitions"
	"github.com/olric-data/olric/internal/verifhook"
	"github.com/olric-data/olric/internal/zzverif/vcommon"
	"pgregory.net/rapid"
)

type c03RaceCase struct {
	Replicas  int    `json:"replicas"`
	TableSize int    `json:"table_size"`
	Keys      int    `json:"keys"`    // all in one partition, so that exactly one fragment (per kind) is handed over
	ValLen    int    `json:"val_len"` // with a small table size: several tables, several moves
	At        int    `json:"at"`      // the Put is let go at the At-th firing of Point
	Point     string `json:"point"`   // move.afterSend | move.beforeDrop
	NewKey    bool   `json:"new_key"` // the racing Put writes a key that did not exist (else it overwrites key 0)
	HoldMs    int    `json:"hold_ms"` // how long the move waits at the point after letting the Put go
}

func genC03Race(t *rapid.T) *c03RaceCase {
	return &c03RaceCase{
		Replicas:  rapid.IntRange(1, 2).Draw(t, "replicas"),
		TableSize: rapid.SampledFrom([]int{256, 512, 4096}).Draw(t, "tableSize"),
		Keys:      rapid.IntRange(1, 8).Draw(t, "keys"),
		ValLen:    rapid.SampledFrom([]int{5, 60, 150}).Draw(t, "valLen"),
		At:        rapid.IntRange(1, 3).Draw(t, "at"),
		Point:     rapid.SampledFrom([]string{"move.afterSend", "move.afterSend", "move.beforeDrop"}).Draw(t, "point"),
		NewKey:    rapid.Bool().Draw(t, "newKey"),
		HoldMs:    rapid.SampledFrom([]int{5, 30}).Draw(t, "hold"),
	}
}

func runC03Race(c *c03RaceCase) (v *vcommon.Violation, nontrivial, inconclusive bool) {
	const P = 7
	opts := vOpts{Members: c.Replicas, Replicas: c.Replicas, Partitions: P, TableSize: c.TableSize, Stepped: true}
	cl := &vCluster{opts: opts}
	defer cl.shutdown()
	defer verifhook.Reset()
	for i := 0; i < c.Replicas; i++ {
		if _, err := cl.addMember(); err != nil {
			return nil, false, true
		}
		if err := cl.waitSettled(15 * time.Second); err != nil {
			return nil, false, true
		}
	}
	ctx, cancel := context.WithTimeout(context.Background(), 90*time.Second)
	defer cancel()
	name := freshName("c03r-")
	var hist []string
	bad := func(class, format string, args ...interface{}) *vcommon.Violation {
		v := vcommon.NewViolation("C03", "race", class, c, format, args...)
		v.History = vcommon.MustJSON(hist)
		return v
	}
	// keys of one partition
	var keys []string
	target := uint64(0)
	for j := 0; len(keys) < c.Keys+1 && j < 5000; j++ {
		k := fmt.Sprintf("rk-%d", j)
		p := partitions.HKey(name, k) % P
		if len(keys) == 0 {
			target = p
		}
		if p == target {
			keys = append(keys, k)
		}
	}
	if len(keys) < c.Keys+1 {
		return nil, false, true
	}
	raceKey := keys[0]
	if c.NewKey {
		raceKey = keys[c.Keys] // not written below
	}
	model := map[string]string{}
	first := cl.live()[0]
	dm, err := first.emb.NewDMap(name)
	if err != nil {
		return nil, false, true
	}
	for i := 0; i < c.Keys; i++ {
		val := fmt.Sprintf("v%d-", i) + string(bytes.Repeat([]byte{'x'}, c.ValLen))
		if err := dm.Put(ctx, keys[i], []byte(val)); err != nil {
			return nil, false, true
		}
		model[keys[i]] = val
	}
	owner := cl.ownerOf(name, raceKey)

	// 1. the Put enters on the owner and is held before it locks the fragment
	gate, entered := make(chan struct{}), make(chan struct{}, 1)
	var once, release sync.Once
	letGo := func() { release.Do(func() { close(gate) }) }
	defer letGo()
	verifhook.Set("put.fragmentLoaded", func(args ...string) {
		if len(args) >= 2 && args[0] == owner.name && args[1] == raceKey {
			held := false
			once.Do(func() { held = true })
			if held {
				entered <- struct{}{}
				<-gate
			}
		}
	})
	putDone := make(chan error, 1)
	go func() {
		odm, err := owner.emb.NewDMap(name)
		if err != nil {
			putDone <- err
			return
		}
		putDone <- odm.Put(ctx, raceKey, []byte("raced"))
	}()
	select {
	case <-entered:
	case <-time.After(5 * time.Second):
		return nil, false, true
	}
	hist = append(hist, fmt.Sprintf("Put(%s) entered on its owner %s and is held before the fragment lock", raceKey, owner.name))

	// 2. a member joins; the routing table reaches everybody
	if _, err := cl.addMember(); err != nil {
		return nil, false, true
	}
	if co := cl.coordinator(); co != nil {
		co.db.rt.UpdateEagerly()
	}
	if err := cl.waitSettled(20 * time.Second); err != nil {
		return nil, false, true
	}
	moved := cl.ownerOf(name, raceKey) != owner
	hist = append(hist, fmt.Sprintf("joined %s; partition %d now belongs to %s (moved=%v)", cl.live()[len(cl.live())-1].name, target, cl.ownerOf(name, raceKey).name, moved))

	// 3. the old owner's balancer hands the fragment over; at the chosen firing the Put is let go
	var mu sync.Mutex
	firings := 0
	verifhook.Set(c.Point, func(args ...string) {
		if len(args) < 1 || args[0] != owner.name {
			return
		}
		mu.Lock()
		firings++
		hit := firings == c.At
		mu.Unlock()
		if hit {
			letGo()
			time.Sleep(time.Duration(c.HoldMs) * time.Millisecond)
		}
	})
	balanced := make(chan struct{})
	go func() {
		defer close(balanced)
		for i := 0; i < 40; i++ {
			owner.db.balancer.BalanceEagerly()
			if len(owner.db.dmap.VerifKeys(name, target, partitions.PRIMARY)) == 0 {
				mu.Lock()
				f := firings
				mu.Unlock()
				if f >= c.At || i > 3 {
					return
				}
			}
		}
	}()
	select {
	case <-balanced:
	case <-time.After(40 * time.Second):
		letGo()
		return nil, false, true
	}
	mu.Lock()
	inFlight := firings >= c.At
	mu.Unlock()
	letGo() // fewer moves than At: the Put simply comes after the hand-over
	var perr error
	select {
	case perr = <-putDone:
	case <-time.After(15 * time.Second):
		return nil, false, true
	}
	hist = append(hist, fmt.Sprintf("hand-over ran (%d firings of %s, Put let go in flight=%v); Put returned %v", firings, c.Point, inFlight, perr))
	if perr == nil {
		model[raceKey] = "raced"
	} else if transportNoise(perr.Error()) {
		return nil, false, true
	}
	nontrivial = moved && inFlight

	// 4. finish every hand-over, then every key reads its last acknowledged value from every member
	for i := 0; i < 60; i++ {
		if co := cl.coordinator(); co != nil {
			co.db.rt.UpdateEagerly()
		}
		if err := cl.waitSettled(20 * time.Second); err != nil {
			return nil, nontrivial, true
		}
		for _, m := range cl.live() {
			m.db.balancer.BalanceEagerly()
		}
		pending := false
		for _, m := range cl.live() {
			if m != cl.ownerOf(name, raceKey) && len(m.db.dmap.VerifKeys(name, target, partitions.PRIMARY)) > 0 {
				pending = true
			}
		}
		if !pending && i >= 2 {
			break
		}
	}
	for _, m := range cl.live() {
		mdm, err := m.emb.NewDMap(name)
		if err != nil {
			return nil, nontrivial, true
		}
		for k, want := range model {
			g := fromGetResponse(mdm.Get(ctx, k))
			if g.Err != "" && g.Err != "notfound" {
				if transportNoise(g.Err) {
					return nil, nontrivial, true
				}
				return bad("read-error", "Get(%s) through %s failed: %s", k, m.name, g.Err), nontrivial, false
			}
			if g.Err == "notfound" || string(g.Val) != want {
				class := "lost-or-stale"
				if k == raceKey {
					class = "racing-put-lost"
				}
				return bad(class, "after the hand-over key %s reads %s through %s; its last acknowledged value is %q (the racing Put of %s returned %v)", k, g.String(), m.name, want, raceKey, perr), nontrivial, false
			}
		}
	}
	return nil, nontrivial, false
}

func TestVerifC03Race(t *testing.T) {
	p := vcommon.Env()
	if p.Replay != "" {
		v, err := vcommon.LoadViolation(p.Replay)
		if err != nil {
			t.Fatal(err)
		}
		c := &c03RaceCase{}
		if err := json.Unmarshal(v.Case, c); err != nil {
			t.Fatal(err)
		}
		for i := 0; i < 3; i++ {
			got, _, _ := runC03Race(c)
			if got != nil {
				path := vcommon.SaveViolation(got)
				fmt.Printf("VERIF-VIOLATION %s %s\n", path, got.Message)
				t.Fatalf("replay still fails: %s", got.Message)
			}
		}
		return
	}
	col := vcommon.NewCollector("C03", "race")
	t.Cleanup(col.Flush)
	rapid.Check(t, func(rt *rapid.T) {
		c := genC03Race(rt)
		v, nt, inc := runC03Race(c)
		if inc || (v != nil && vFlapsSinceMark() > 0) {
			col.Inconclusive()
			return
		}
		col.Record(vcommon.MustJSON(c), nt, fmt.Sprintf("replicas:%d", c.Replicas), "point:"+c.Point, fmt.Sprintf("newkey:%v", c.NewKey))
		if v != nil {
			if vcommon.Known(v.Class) {
				col.ExcludedKnown()
				return
			}
			vcommon.SaveViolation(v)
			rt.Fatalf("%s", v.Message)
		}
	})
}
