package olric

// C06: conflicting copies resolve to the newest write (LWW reads, merge, read-repair).

import (
	"context"
	"encoding/json"
	"fmt"
	"strings"
	"testing"
	"time"

	"github.com/olric-data/olric/internal/cluster/partitions"
	"github.com/olric-data/olric/internal/kvstore"
	"github.com/olric-data/olric/internal/kvstore/entry"
	"github.com/olric-data/olric/internal/zzverif/vcommon"
	"github.com/vmihailenco/msgpack/v5"
	"pgregory.net/rapid"
)

// ---- (a) reads ----

type c06Copy struct {
	Holder int   `json:"holder"` // index into the key's holder list: primary owner, previous owners..., backup owners...
	TS     int64 `json:"ts"`     // 0 = no copy
}

type c06Key struct {
	K      int       `json:"k"`
	Copies []c06Copy `json:"copies"`
	Reader int       `json:"reader"`
}

type c06Case struct {
	Kind       string   `json:"kind"` // reads | merge
	Members    int      `json:"members,omitempty"`
	Replicas   int      `json:"replicas,omitempty"`
	ReadRepair bool     `json:"read_repair,omitempty"`
	Join       bool     `json:"join,omitempty"` // one more member joins without balancing: partitions get previous owners
	Join2      bool     `json:"join2,omitempty"` // with Join: data is written and a second member joins, again without balancing
	Keys       []c06Key `json:"keys,omitempty"`
	// merge
	Existing []c06Ent   `json:"existing,omitempty"`
	Tables   [][]c06Ent `json:"tables,omitempty"`
	Order    []int      `json:"order,omitempty"` // delivery order with repetitions (indexes into Tables)
}

type c06Ent struct {
	K  int   `json:"k"`
	TS int64 `json:"ts"`
}

func genC06Reads(t *rapid.T) *c06Case {
	c := &c06Case{Kind: "reads"}
	c.Members = rapid.IntRange(2, 3).Draw(t, "members")
	c.Replicas = rapid.IntRange(1, 3).Draw(t, "replicas")
	c.ReadRepair = rapid.Bool().Draw(t, "rr")
	c.Join = rapid.Bool().Draw(t, "join")
	c.Join2 = c.Join && rapid.Bool().Draw(t, "join2")
	n := rapid.IntRange(1, 8).Draw(t, "keys")
	for i := 0; i < n; i++ {
		k := c06Key{K: i, Reader: rapid.IntRange(0, 3).Draw(t, "reader")}
		for h := 0; h < 5; h++ {
			k.Copies = append(k.Copies, c06Copy{Holder: h, TS: rapid.SampledFrom([]int64{0, 0, 100, 200, 200, 300}).Draw(t, "ts")})
		}
		c.Keys = append(c.Keys, k)
	}
	return c
}

func runC06Reads(c *c06Case) (v *vcommon.Violation, nontrivial, inconclusive bool) {
	opts := vOpts{Members: c.Members, Replicas: c.Replicas, Partitions: 13, ReadRepair: c.ReadRepair, Stepped: true, TableSize: 4096}
	cl := &vCluster{opts: opts}
	defer cl.shutdown()
	for i := 0; i < c.Members; i++ {
		if _, err := cl.addMember(); err != nil {
			return nil, false, true
		}
		if err := cl.waitSettled(15 * time.Second); err != nil {
			return nil, false, true
		}
	}
	ctx, cancel := context.WithTimeout(context.Background(), 60*time.Second)
	defer cancel()
	name := freshName("c06-")
	bad := func(class, format string, args ...interface{}) *vcommon.Violation {
		return vcommon.NewViolation("C06", "reads", class, c, format, args...)
	}
	keyName := func(i int) string { return fmt.Sprintf("key-%d", i) }
	if c.Join {
		// real data on the current owners, so that they stay listed as previous owners after the join
		for i := 0; i < 40; i++ {
			dm, err := cl.live()[0].emb.NewDMap(name)
			if err != nil {
				return nil, false, true
			}
			if err := dm.Put(ctx, fmt.Sprintf("ballast-%d", i), []byte("b")); err != nil {
				return nil, false, true
			}
		}
		if _, err := cl.addMember(); err != nil {
			return nil, false, true
		}
		if err := cl.waitSettled(15 * time.Second); err != nil {
			return nil, false, true
		}
		if c.Join2 {
			// data on the owners of the moment, then another join: some partitions now list two previous
			// owners, and the more recent one holds data but possibly no copy of the key that is read
			for i := 0; i < 80; i++ {
				dm, err := cl.live()[0].emb.NewDMap(name)
				if err != nil {
					return nil, false, true
				}
				if err := dm.Put(ctx, fmt.Sprintf("ballast2-%d", i), []byte("b")); err != nil {
					return nil, false, true
				}
			}
			if _, err := cl.addMember(); err != nil {
				return nil, false, true
			}
			if err := cl.waitSettled(15 * time.Second); err != nil {
				return nil, false, true
			}
		}
	}
	ref := cl.live()[0]
	if c.Join2 {
		// every second key is taken from a partition with the longest owner list
		deepest := 0
		for p := uint64(0); p < uint64(opts.Partitions); p++ {
			if n := ref.db.primary.PartitionByID(p).OwnerCount(); n > deepest {
				deepest = n
			}
		}
		plain := keyName
		keyName = func(i int) string {
			if i%2 == 1 {
				return plain(i)
			}
			for j := 0; j < 400; j++ {
				cand := fmt.Sprintf("key-%d-%d", i, j)
				if len(ref.db.primary.PartitionOwnersByHKey(partitions.HKey(name, cand))) == deepest {
					return cand
				}
			}
			return plain(i)
		}
	}
	for _, k := range c.Keys {
		key := keyName(k.K)
		hkey := partitions.HKey(name, key)
		owners := ref.db.primary.PartitionOwnersByHKey(hkey)
		backups := ref.db.backup.PartitionOwnersByHKey(hkey)
		type holder struct {
			m    *vMember
			kind partitions.Kind
			role string
		}
		var holders []holder
		holders = append(holders, holder{cl.byName(owners[len(owners)-1].Name), partitions.PRIMARY, "primary owner"})
		for i := len(owners) - 2; i >= 0; i-- {
			holders = append(holders, holder{cl.byName(owners[i].Name), partitions.PRIMARY, "previous owner"})
		}
		for _, b := range backups {
			holders = append(holders, holder{cl.byName(b.Name), partitions.BACKUP, "backup owner"})
		}
		placed := map[int]int64{}
		var maxTS int64
		distinct := map[int64]bool{}
		for _, cp := range k.Copies {
			if cp.TS == 0 || cp.Holder >= len(holders) {
				continue
			}
			h := holders[cp.Holder]
			val := fmt.Sprintf("val-ts%d-holder%d", cp.TS, cp.Holder)
			if err := h.m.db.dmap.VerifPutEntry(name, key, h.kind, []byte(val), 0, cp.TS); err != nil {
				return nil, nontrivial, true
			}
			placed[cp.Holder] = cp.TS
			distinct[cp.TS] = true
			if cp.TS > maxTS {
				maxTS = cp.TS
			}
		}
		if len(distinct) >= 2 && placed[0] != maxTS {
			nontrivial = true
		}
		before := map[int]rawCopy{}
		for hi, h := range holders {
			before[hi] = decodeCopy(h.m.db.dmap.VerifRaw(name, key, h.kind))
		}
		reader := cl.live()[k.Reader%len(cl.live())]
		dm, err := reader.emb.NewDMap(name)
		if err != nil {
			return nil, nontrivial, true
		}
		g := fromGetResponse(dm.Get(ctx, key))
		if strings.HasPrefix(g.Err, "other:") {
			return nil, nontrivial, true
		}
		desc := fmt.Sprintf("key %s, copies (holder:timestamp) %v over %d holders, read through %s, read-repair %v", key, placed, len(holders), reader.name, c.ReadRepair)
		if maxTS == 0 {
			if g.Err != "notfound" {
				return bad("phantom", "%s: no copy exists but Get returned %s", desc, g.String()), nontrivial, false
			}
			continue
		}
		if g.Err != "" {
			return bad("newest-not-found", "%s: Get failed with %s although copies exist", desc, g.Err), nontrivial, false
		}
		if !strings.HasPrefix(string(g.Val), fmt.Sprintf("val-ts%d-", maxTS)) {
			return bad("not-newest", "%s: Get returned %q, the newest copy has timestamp %d", desc, g.Val, maxTS), nontrivial, false
		}
		// copies afterwards
		for hi, h := range holders {
			after := decodeCopy(h.m.db.dmap.VerifRaw(name, key, h.kind))
			b := before[hi]
			if !c.ReadRepair {
				if !after.equal(b) {
					return bad("changed-without-read-repair", "%s: the copy on the %s %s changed from %v to %v although read-repair is off", desc, h.role, h.m.name, b, after), nontrivial, false
				}
				continue
			}
			stale := b.present && b.ts < maxTS
			mustRepair := stale && (h.role == "primary owner" || h.role == "backup owner")
			if h.role == "backup owner" && h.m == holders[0].m {
				// transitional state right after a join: the primary owner is also still listed as a backup
				// owner. Read-repair addresses a member, not a fragment, and repairs that member's primary
				// copy; its own leftover backup copy is outside "every reachable stale backup copy" as far
				// as this check is concerned (labelled, not asserted)
				mustRepair = false
			}
			if mustRepair {
				if !after.present || after.ts != maxTS || !strings.HasPrefix(string(after.value), fmt.Sprintf("val-ts%d-", maxTS)) {
					return bad("not-repaired:"+strings.Fields(h.role)[0], "%s: after the read the stale copy on the %s %s is %v, want the newest version (timestamp %d)", desc, h.role, h.m.name, after, maxTS), nontrivial, false
				}
			}
			if h.role == "primary owner" && !b.present {
				// the owner's own copy is brought up to the newest version
				if !after.present || after.ts != maxTS {
					return bad("not-repaired:owner-missing", "%s: after the read the owner %s holds %v, want the newest version (timestamp %d)", desc, h.m.name, after, maxTS), nontrivial, false
				}
			}
			if after.present && after.ts > maxTS {
				return bad("invented-version", "%s: the copy on %s now has timestamp %d", desc, h.m.name, after.ts), nontrivial, false
			}
			// a copy that already was (one of) the newest stays a newest one; which of several tied values it
			// holds afterwards is not stated
			if b.present && b.ts == maxTS && (!after.present || after.ts != maxTS || !strings.HasPrefix(string(after.value), fmt.Sprintf("val-ts%d-", maxTS))) {
				return bad("newest-copy-changed", "%s: the newest copy on the %s %s changed from %v to %v", desc, h.role, h.m.name, b, after), nontrivial, false
			}
		}
	}
	return nil, nontrivial, false
}

// ---- (b) merge ----

func genC06Merge(t *rapid.T) *c06Case {
	c := &c06Case{Kind: "merge"}
	ne := rapid.IntRange(0, 5).Draw(t, "existing")
	for i := 0; i < ne; i++ {
		c.Existing = append(c.Existing, c06Ent{K: rapid.IntRange(0, 7).Draw(t, "k"), TS: rapid.SampledFrom([]int64{50, 100, 200, 300}).Draw(t, "ts")})
	}
	nt := rapid.IntRange(1, 4).Draw(t, "tables")
	for i := 0; i < nt; i++ {
		var tab []c06Ent
		n := rapid.IntRange(1, 6).Draw(t, "n")
		for j := 0; j < n; j++ {
			tab = append(tab, c06Ent{K: rapid.IntRange(0, 7).Draw(t, "k"), TS: rapid.SampledFrom([]int64{50, 100, 200, 300, 400}).Draw(t, "ts")})
		}
		c.Tables = append(c.Tables, tab)
	}
	no := rapid.IntRange(nt, nt+4).Draw(t, "deliveries")
	for i := 0; i < no; i++ {
		c.Order = append(c.Order, rapid.IntRange(0, nt-1).Draw(t, "o"))
	}
	// every table is delivered at least once
	seen := map[int]bool{}
	for _, o := range c.Order {
		seen[o] = true
	}
	for i := 0; i < nt; i++ {
		if !seen[i] {
			c.Order = append(c.Order, i)
		}
	}
	return c
}

type c06FragmentPack struct {
	PartID  uint64
	Kind    partitions.Kind
	Name    string
	Payload []byte
}

func runC06Merge(c *c06Case) (v *vcommon.Violation, nontrivial, inconclusive bool) {
	cl, err := pooledCluster(vOpts{Members: 1, Replicas: 1, Partitions: 7, TableSize: 4096})
	if err != nil {
		return nil, false, true
	}
	ctx, cancel := context.WithTimeout(context.Background(), 30*time.Second)
	defer cancel()
	m := cl.live()[0]
	name := freshName("c06m-")
	bad := func(class, format string, args ...interface{}) *vcommon.Violation {
		return vcommon.NewViolation("C06", "merge", class, c, format, args...)
	}
	// eight keys of one partition
	var keys []string
	partID := uint64(3)
	for i := 0; len(keys) < 8; i++ {
		k := fmt.Sprintf("mk-%d", i)
		if partitions.HKey(name, k)%7 == partID {
			keys = append(keys, k)
		}
	}
	best := map[int]int64{}
	valOf := func(e c06Ent, src string) string { return fmt.Sprintf("ts%d-%s", e.TS, src) }
	for i, e := range c.Existing {
		// later writes with an older timestamp replace the entry in the engine: the latest placed one is what is there
		if err := m.db.dmap.VerifPutEntry(name, keys[e.K], partitions.PRIMARY, []byte(valOf(e, fmt.Sprintf("existing%d", i))), 0, e.TS); err != nil {
			return nil, false, true
		}
		best[e.K] = e.TS
	}
	var payloads [][]byte
	for ti, tab := range c.Tables {
		cfg := kvstore.DefaultConfig()
		cfg.Add("tableSize", 4096)
		s, err := kvstore.New(cfg)
		if err != nil {
			return nil, false, true
		}
		inTable := map[int]int64{}
		for j, e := range tab {
			ent := entry.New()
			ent.SetKey(keys[e.K])
			ent.SetValue([]byte(valOf(e, fmt.Sprintf("table%d-%d", ti, j))))
			ent.SetTimestamp(e.TS)
			if err := s.Put(partitions.HKey(name, keys[e.K]), ent); err != nil {
				return nil, false, true
			}
			inTable[e.K] = e.TS // a later Put of the same key replaces the earlier one inside the table
		}
		for k, ts := range inTable {
			if ts > best[k] {
				best[k] = ts
			}
		}
		data, _, err := s.TransferIterator().Export()
		if err != nil {
			return nil, false, true
		}
		b, err := msgpack.Marshal(c06FragmentPack{PartID: partID, Kind: partitions.PRIMARY, Name: name, Payload: data})
		if err != nil {
			return nil, false, true
		}
		payloads = append(payloads, b)
	}
	// out-of-order delivery of an overlapping key?
	for i := 1; i < len(c.Order); i++ {
		for _, a := range c.Tables[c.Order[i-1]] {
			for _, b := range c.Tables[c.Order[i]] {
				if a.K == b.K && a.TS > b.TS {
					nontrivial = true
				}
			}
		}
	}
	for _, o := range c.Order {
		if err := m.rc.Do(ctx, "internal.node.movefragment", payloads[o]).Err(); err != nil {
			return bad("merge-rejected", "delivering table %d failed: %v", o, err), nontrivial, false
		}
	}
	for k, want := range best {
		rc := decodeCopy(m.db.dmap.VerifRaw(name, keys[k], partitions.PRIMARY))
		if !rc.present {
			return bad("merge-lost", "key %d is missing after all tables were merged (newest timestamp %d)", k, want), nontrivial, false
		}
		if rc.ts != want || !strings.HasPrefix(string(rc.value), fmt.Sprintf("ts%d-", want)) {
			return bad("merge-not-newest", "key %d holds %v after the tables were delivered in order %v; the newest delivered or pre-existing entry has timestamp %d", k, rc, c.Order, want), nontrivial, false
		}
	}
	return nil, nontrivial, false
}

func runC06(c *c06Case) (*vcommon.Violation, bool, bool) {
	if c.Kind == "merge" {
		return runC06Merge(c)
	}
	return runC06Reads(c)
}

func c06Test(t *testing.T, kind string) {
	p := vcommon.Env()
	t.Cleanup(shutdownPool)
	if p.Replay != "" {
		v, err := vcommon.LoadViolation(p.Replay)
		if err != nil {
			t.Fatal(err)
		}
		c := &c06Case{}
		if err := json.Unmarshal(v.Case, c); err != nil {
			t.Fatal(err)
		}
		if c.Kind != kind {
			return
		}
		for i := 0; i < 3; i++ {
			got, _, inc := runC06(c)
			if inc {
				continue
			}
			if got != nil {
				path := vcommon.SaveViolation(got)
				fmt.Printf("VERIF-VIOLATION %s %s\n", path, got.Message)
				t.Fatalf("replay still fails: %s", got.Message)
			}
		}
		return
	}
	col := vcommon.NewCollector("C06", kind)
	t.Cleanup(col.Flush)
	rapid.Check(t, func(rt *rapid.T) {
		var c *c06Case
		if kind == "merge" {
			c = genC06Merge(rt)
		} else {
			c = genC06Reads(rt)
		}
		v, nt, inc := runC06(c)
		if inc || (v != nil && transportNoise(v.Message)) {
			col.Inconclusive()
			return
		}
		var labels []string
		if kind == "reads" {
			labels = append(labels, fmt.Sprintf("replicas:%d", c.Replicas), fmt.Sprintf("rr:%v", c.ReadRepair), fmt.Sprintf("join:%v", c.Join), fmt.Sprintf("join2:%v", c.Join2))
		}
		col.Record(vcommon.MustJSON(c), nt, labels...)
		if v != nil {
			if vcommon.Known(v.Class) {
				col.ExcludedKnown()
				return
			}
			vcommon.SaveViolation(v)
			rt.Fatalf("%s", v.Message)
		}
	})
}

func TestVerifC06Reads(t *testing.T) { c06Test(t, "reads") }
func TestVerifC06Merge(t *testing.T) { c06Test(t, "merge") }
