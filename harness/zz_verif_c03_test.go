package olric

// C03: rebalancing after joins and leaves neither loses, duplicates nor resurrects keys.
//
// Members run "stepped": no periodic routing push, balancer, janitor or compaction. The
// harness invokes them as generated steps, so that reads, writes and deletes are placed
// exactly between the routing-table push, each table move and the pruning of emptied owners.

import (
	"context"
	"encoding/json"
	"fmt"
	"sort"
	"strings"
	"sync"
	"testing"
	"time"

	"github.com/olric-data/olric/internal/cluster/partitions"
	"github.com/olric-data/olric/internal/verifhook"
	"github.com/olric-data/olric/internal/zzverif/vcommon"
	"pgregory.net/rapid"
)

type c03Step struct {
	Op     string `json:"op"` // put del get scan join leave push balance janitor compact crash
	K      int    `json:"k,omitempty"`
	Member int    `json:"member,omitempty"`
	Size   int    `json:"size,omitempty"`  // value size in percent of the table
	Point  string `json:"point,omitempty"` // crash: move.afterSend move.beforeDrop merge.entry
	Kill   bool   `json:"kill,omitempty"`  // leave: abrupt
}

type c03Case struct {
	Start      int       `json:"start"`
	Replicas   int       `json:"replicas"`
	Partitions int       `json:"partitions"`
	TableSize  int       `json:"table_size"`
	Keys       int       `json:"keys"`
	Steps      []c03Step `json:"steps"`
}

func genC03(t *rapid.T) *c03Case {
	c := &c03Case{}
	c.Start = rapid.IntRange(1, 3).Draw(t, "start")
	c.Replicas = rapid.IntRange(1, 2).Draw(t, "replicas")
	// the consistent-hash library needs more partitions than members (it panics otherwise): up to 5 members here
	c.Partitions = rapid.SampledFrom([]int{7, 7, 13}).Draw(t, "partitions")
	c.TableSize = rapid.SampledFrom([]int{256, 512, 2048}).Draw(t, "tableSize")
	c.Keys = rapid.IntRange(6, 40).Draw(t, "keys")
	// load first, so that fragments span several tables when the first member joins
	for i := 0; i < c.Keys; i++ {
		c.Steps = append(c.Steps, c03Step{Op: "put", K: i, Member: rapid.IntRange(0, 3).Draw(t, "m"), Size: rapid.SampledFrom([]int{5, 15, 30}).Draw(t, "size")})
	}
	n := rapid.IntRange(8, 50).Draw(t, "nsteps")
	kinds := []string{"put", "put", "put", "del", "del", "get", "get", "scan", "join", "join", "leave", "push", "balance", "balance", "balance", "janitor", "compact", "crash"}
	for i := 0; i < n; i++ {
		s := c03Step{Op: rapid.SampledFrom(kinds).Draw(t, "op")}
		s.K = rapid.IntRange(0, c.Keys-1).Draw(t, "k")
		s.Member = rapid.IntRange(0, 5).Draw(t, "member")
		s.Size = rapid.SampledFrom([]int{5, 15, 30}).Draw(t, "size")
		if s.Op == "crash" {
			s.Point = rapid.SampledFrom([]string{"move.afterSend", "move.beforeDrop", "merge.entry"}).Draw(t, "point")
		}
		if s.Op == "leave" {
			s.Kill = rapid.Bool().Draw(t, "kill")
		}
		c.Steps = append(c.Steps, s)
	}
	return c
}

type c03Entry struct {
	val      string
	asserted bool // written while >= R members were present: survives leaves/crashes
}

func runC03(c *c03Case) (v *vcommon.Violation, nontrivial, inconclusive bool) {
	opts := vOpts{Members: c.Start, Replicas: c.Replicas, Partitions: c.Partitions, TableSize: c.TableSize, Stepped: true, FastDetect: true}
	cl := &vCluster{opts: opts}
	defer cl.shutdown()
	defer verifhook.Reset()
	for i := 0; i < c.Start; i++ {
		if _, err := cl.addMember(); err != nil {
			return nil, false, true
		}
		if err := cl.waitSettled(15 * time.Second); err != nil {
			return nil, false, true
		}
	}
	ctx, cancel := context.WithTimeout(context.Background(), 120*time.Second)
	defer cancel()
	name := freshName("c03-")
	var hist []string
	step := -1
	bad := func(class, format string, args ...interface{}) *vcommon.Violation {
		cut := *c
		if step >= 0 && step+1 < len(c.Steps) {
			cut.Steps = c.Steps[:step+1]
		}
		v := vcommon.NewViolation("C03", "rebalance", class, &cut, format, args...)
		v.Message = fmt.Sprintf("step %d: %s", step, v.Message)
		if len(hist) > 400 {
			hist = hist[len(hist)-400:]
		}
		v.History = vcommon.MustJSON(hist)
		return v
	}
	model := map[string]*c03Entry{}
	deleted := map[string]bool{}
	failures := 0
	lossy := false // a member holding unreplicated data was lost: only "no resurrection / no duplication" can be asserted for unasserted keys
	keyName := func(i int) string { return fmt.Sprintf("key-%03d", i) }
	fragmented := func(key string) bool {
		m := cl.live()[0]
		p := m.db.primary.PartitionByHKey(partitions.HKey(name, key))
		if len(p.Owners()) < 2 {
			return false
		}
		for _, o := range p.Owners() {
			if om := cl.byName(o.Name); om != nil {
				if st, ok := om.db.dmap.VerifFragmentStats(name, p.ID(), partitions.PRIMARY); ok && st.NumTables >= 2 {
					return true
				}
			}
		}
		return false
	}
	push := func() {
		if co := cl.coordinator(); co != nil {
			co.db.rt.UpdateEagerly()
		}
	}
	settle := func() bool { return cl.waitSettled(20*time.Second) == nil }
	quiesce := func() bool {
		bound := 400
		for i := 0; i < bound; i++ {
			push()
			if !settle() {
				return false
			}
			for _, m := range cl.live() {
				m.db.balancer.BalanceEagerly()
			}
			push()
			if !settle() {
				return false
			}
			if cl.stableNow() {
				// nothing misplaced any more?
				misplaced := false
				for _, m := range cl.live() {
					for p := uint64(0); p < uint64(c.Partitions); p++ {
						if m.db.primary.PartitionByID(p).Owner().Name != m.name && len(m.db.dmap.VerifKeys(name, p, partitions.PRIMARY)) > 0 {
							misplaced = true
						}
					}
				}
				if !misplaced {
					return true
				}
			}
		}
		return false
	}
	// crash point machinery
	var armMu sync.Mutex
	armedPoint := ""
	handler := func(point string) func(args ...string) {
		return func(args ...string) {
			armMu.Lock()
			hit := armedPoint == point
			if hit {
				armedPoint = ""
			}
			armMu.Unlock()
			if !hit || len(args) == 0 {
				return
			}
			if victim := cl.byName(args[0]); victim != nil && victim.alive {
				go cl.kill(victim)
				select {} // this member is gone
			}
		}
	}
	for _, p := range []string{"move.afterSend", "move.beforeDrop", "merge.entry"} {
		verifhook.Set(p, handler(p))
	}
	readCheck := func(m *vMember, key string, where string) *vcommon.Violation {
		dm, err := m.emb.NewDMap(name)
		if err != nil {
			return nil
		}
		g := fromGetResponse(dm.Get(ctx, key))
		if strings.HasPrefix(g.Err, "other:") {
			return nil
		}
		e, ok := model[key]
		switch {
		case ok && (e.asserted || !lossy):
			if g.Err != "" || string(g.Val) != e.val {
				return bad("lost-or-stale:"+where, "%s: Get(%s) from %s returned %s, the last acknowledged value is %.20q", where, key, m.name, g.String(), e.val)
			}
		case ok:
			if g.Err == "" && string(g.Val) != e.val {
				return bad("stale:"+where, "%s: Get(%s) from %s returned %s, the last acknowledged value is %.20q", where, key, m.name, g.String(), e.val)
			}
		case deleted[key]:
			if g.Err != "notfound" {
				return bad("resurrected:"+where, "%s: Get(%s) from %s returned %s, the key was deleted", where, key, m.name, g.String())
			}
		}
		return nil
	}

	for i, s := range c.Steps {
		step = i
		live := cl.live()
		m := live[s.Member%len(live)]
		key := keyName(s.K)
		switch s.Op {
		case "put":
			val := fmt.Sprintf("v%d|%s", i, strings.Repeat("x", c.TableSize*s.Size/100))
			dm, err := m.emb.NewDMap(name)
			if err != nil {
				return nil, nontrivial, true
			}
			if _, ok := model[key]; ok && fragmented(key) {
				nontrivial = true
			}
			err = dm.Put(ctx, key, []byte(val))
			hist = append(hist, fmt.Sprintf("%d put(%s) via %s -> %v", i, key, m.name, err))
			if err != nil {
				if strings.HasPrefix(errClass(err), "other:") {
					return nil, nontrivial, true
				}
				return bad("put-error", "Put(%s) through %s failed: %v", key, m.name, err), nontrivial, false
			}
			model[key] = &c03Entry{val: val, asserted: len(live) >= c.Replicas}
			delete(deleted, key)
		case "del":
			dm, err := m.emb.NewDMap(name)
			if err != nil {
				return nil, nontrivial, true
			}
			if _, ok := model[key]; ok && fragmented(key) {
				nontrivial = true
			}
			_, err = dm.Delete(ctx, key)
			hist = append(hist, fmt.Sprintf("%d del(%s) via %s -> %v", i, key, m.name, err))
			if err != nil {
				if strings.HasPrefix(errClass(err), "other:") {
					return nil, nontrivial, true
				}
				return bad("delete-error", "Delete(%s) through %s failed: %v", key, m.name, err), nontrivial, false
			}
			delete(model, key)
			deleted[key] = true
		case "get":
			if _, ok := model[key]; ok && fragmented(key) {
				nontrivial = true
			}
			if v := readCheck(m, key, "during-handover"); v != nil {
				return v, nontrivial, false
			}
		case "scan":
			dm, err := m.emb.NewDMap(name)
			if err != nil {
				return nil, nontrivial, true
			}
			got, err := scanAll(ctx, dm, 10)
			if err != nil {
				continue
			}
			seen := map[string]bool{}
			for _, k := range got {
				seen[k] = true
				if deleted[k] {
					return bad("scan-resurrected", "a scan through %s yields %s, which was deleted", m.name, k), nontrivial, false
				}
			}
			for k, e := range model {
				if (e.asserted || !lossy) && !seen[k] {
					return bad("scan-missing", "a scan through %s does not yield %s (%d of %d keys)", m.name, k, len(got), len(model)), nontrivial, false
				}
			}
		case "join":
			if len(live) >= 4 {
				continue
			}
			if _, err := cl.addMember(); err != nil {
				return nil, nontrivial, true
			}
			if !settle() {
				return nil, nontrivial, true
			}
			hist = append(hist, fmt.Sprintf("%d join -> %d members", i, len(cl.live())))
		case "leave":
			// without replicas a leaving member takes its keys with it, and Olric does not re-create lost
			// redundancy: at most R-1 members are lost per case
			if len(live) <= 1 || c.Replicas < 2 || failures >= c.Replicas-1 {
				continue
			}
			// leaves only once every asserted key has its backups: drive the hand-over to quiescence first
			if !quiesce() {
				return nil, nontrivial, true
			}
			failures++
			lossy = true // keys written while fewer than R members were present may be gone now
			victim := cl.live()[s.Member%len(cl.live())]
			hist = append(hist, fmt.Sprintf("%d leave %s kill=%v", i, victim.name, s.Kill))
			if s.Kill {
				cl.kill(victim)
			} else {
				cl.stop(victim)
			}
			if !settle() {
				return nil, nontrivial, true
			}
			for _, e := range model {
				if len(cl.live()) < c.Replicas {
					_ = e
				}
			}
		case "push":
			push()
			if !settle() {
				return nil, nontrivial, true
			}
			hist = append(hist, fmt.Sprintf("%d push", i))
		case "balance":
			m.db.balancer.BalanceEagerly()
			hist = append(hist, fmt.Sprintf("%d balance %s", i, m.name))
		case "janitor":
			m.db.dmap.VerifJanitor()
		case "compact":
			for p := uint64(0); p < uint64(c.Partitions); p++ {
				m.db.dmap.VerifDoCompaction(p)
			}
		case "crash":
			if len(live) < 2 || c.Replicas < 2 || failures >= c.Replicas-1 {
				continue
			}
			// a crash is only survivable once the backups are in place
			if !quiesce() {
				return nil, nontrivial, true
			}
			failures++
			lossy = true
			// create something to move: a join, then one balancer round with the crash point armed
			if len(cl.live()) < 4 {
				if _, err := cl.addMember(); err != nil {
					return nil, nontrivial, true
				}
				if !settle() {
					return nil, nontrivial, true
				}
			}
			armMu.Lock()
			armedPoint = s.Point
			armMu.Unlock()
			before := len(cl.live())
			done := make(chan struct{})
			go func() {
				for _, mm := range cl.live() {
					mm.db.balancer.BalanceEagerly()
				}
				close(done)
			}()
			select {
			case <-done:
			case <-time.After(10 * time.Second):
			}
			armMu.Lock()
			fired := armedPoint == ""
			armedPoint = ""
			armMu.Unlock()
			for j := 0; j < 1000 && fired && len(cl.live()) == before; j++ {
				time.Sleep(2 * time.Millisecond)
			}
			hist = append(hist, fmt.Sprintf("%d crash at %s fired=%v -> %d members", i, s.Point, fired, len(cl.live())))
			if fired {
				nontrivial = true
			}
			if !settle() {
				return nil, nontrivial, true
			}
		}
	}
	// final: drive to quiescence, then everything must be in place
	step = len(c.Steps) - 1
	if !quiesce() {
		return nil, nontrivial, true
	}
	for _, m := range cl.live() {
		for i := 0; i < c.Keys; i++ {
			if v := readCheck(m, keyName(i), "final"); v != nil {
				return v, nontrivial, false
			}
		}
	}
	// white box: exactly one primary copy, on the partition's owner; backups in place; nobody else holds a copy
	ref := cl.live()[0]
	holders := map[string][]string{}
	for _, m := range cl.live() {
		for p := uint64(0); p < uint64(c.Partitions); p++ {
			for _, k := range m.db.dmap.VerifKeys(name, p, partitions.PRIMARY) {
				holders[k] = append(holders[k], m.name)
				if owner := ref.db.primary.PartitionByID(p).Owner().Name; owner != m.name {
					return bad("copy-on-non-owner", "after the hand-over finished %s still holds a primary copy of %s; the partition's owner is %s", m.name, k, owner), nontrivial, false
				}
			}
		}
	}
	for k, hs := range holders {
		if len(hs) > 1 {
			return bad("duplicated", "key %s is stored as a primary copy on %v", k, hs), nontrivial, false
		}
		if deleted[k] {
			return bad("resurrected:final", "deleted key %s is stored on %v", k, hs), nontrivial, false
		}
	}
	for k := range model {
		// "after joins every live key is stored exactly once as a primary copy": a key whose primary owner was
		// lost lives on in its backup copy (reads find it there); Olric does not promote it
		if failures == 0 && len(holders[k]) != 1 {
			return bad("lost:final", "key %s has %d primary copies %v after the hand-over finished", k, len(holders[k]), holders[k]), nontrivial, false
		}
	}
	if c.Replicas == 2 && len(cl.live()) >= 2 && !lossy {
		for k, e := range model {
			if !e.asserted {
				continue
			}
			for _, b := range cl.backupsOf(name, k) {
				if !b.db.dmap.VerifCheck(name, k, partitions.BACKUP) {
					return bad("backup-missing", "key %s has no backup copy on its backup owner %s after the hand-over finished", k, b.name), nontrivial, false
				}
			}
		}
	}
	dm, err := ref.emb.NewDMap(name)
	if err == nil {
		fetch0 := vFetchErrors()
		if got, err := scanAll(ctx, dm, 7); err == nil {
			var want []string
			for k, e := range model {
				if e.asserted || !lossy {
					want = append(want, k)
				}
			}
			sort.Strings(want)
			seen := map[string]bool{}
			for _, k := range got {
				seen[k] = true
				if deleted[k] {
					return bad("scan-resurrected", "the final scan yields deleted key %s", k), nontrivial, false
				}
			}
			for _, k := range want {
				// a key whose primary owner was lost lives on in its backup copy only: Get finds it there (asserted
				// above), a scan walks the primary fragments - what a scan yields after a failover is not stated
				if !seen[k] && (failures == 0 || len(holders[k]) > 0) {
					part := ref.db.primary.PartitionByHKey(partitions.HKey(name, k))
					diag := ""
					for i := 0; i < part.OwnerCount(); i++ {
						o := part.Owners()[i].String()
						for _, m := range cl.live() {
							if m.name == o {
								st, ok := m.db.dmap.VerifFragmentStats(name, part.ID(), partitions.PRIMARY)
								diag += fmt.Sprintf(" [%s fragment=%v tables=%d keys=%d has-key=%v]", o, ok, st.NumTables, st.Length, m.db.dmap.VerifCheck(name, k, partitions.PRIMARY))
							}
						}
					}
					for _, m := range cl.live() {
						if keys := m.db.dmap.VerifKeys(name, part.ID(), partitions.PRIMARY); len(keys) > 0 {
							diag += fmt.Sprintf(" {%s stores %v; %s}", m.name, keys, m.db.dmap.VerifDumpStorage(name, part.ID(), partitions.PRIMARY))
						}
					}
					return bad("scan-missing", "the final scan does not yield %s (yields %d keys; fetch errors during the scan: %d; partition %d owners as %s sees them:%s)", k, len(got), vFetchErrors()-fetch0, part.ID(), ref.name, diag), nontrivial, false
				}
			}
		}
	}
	return nil, nontrivial, false
}

// quiesceBackups reports whether every key already has its backup copies.
func quiesceBackups(cl *vCluster, c *c03Case, name string) bool {
	if c.Replicas < 2 || len(cl.live()) < 2 {
		return true
	}
	return cl.stableNow()
}

func TestVerifC03(t *testing.T) {
	p := vcommon.Env()
	if p.Replay != "" {
		v, err := vcommon.LoadViolation(p.Replay)
		if err != nil {
			t.Fatal(err)
		}
		c := &c03Case{}
		if err := json.Unmarshal(v.Case, c); err != nil {
			t.Fatal(err)
		}
		for i := 0; i < 3; i++ {
			got, _, inc := runC03(c)
			if inc {
				continue
			}
			if got != nil {
				path := vcommon.SaveViolation(got)
				fmt.Printf("VERIF-VIOLATION %s %s\n", path, got.Message)
				t.Fatalf("replay still fails: %s", got.Message)
			}
		}
		return
	}
	col := vcommon.NewCollector("C03", "rebalance")
	t.Cleanup(col.Flush)
	rapid.Check(t, func(rt *rapid.T) {
		c := genC03(rt)
		v, nt, inc := runC03(c)
		if inc || (v != nil && vFlapsSinceMark() > 0) {
			col.Inconclusive()
			return
		}
		labels := []string{fmt.Sprintf("replicas:%d", c.Replicas), fmt.Sprintf("table:%d", c.TableSize)}
		for _, s := range c.Steps {
			if s.Op == "crash" {
				labels = append(labels, "crash:"+s.Point)
			}
		}
		col.Record(vcommon.MustJSON(c), nt, labels...)
		if v != nil {
			if vcommon.Known(v.Class) {
				col.ExcludedKnown()
				return
			}
			vcommon.SaveViolation(v)
			rt.Fatalf("%s", v.Message)
		}
	})
}
