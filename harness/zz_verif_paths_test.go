package olric

// Entry paths P1..P6 with one interface and normalised results.
//
//  P1 embedded client on the key's primary owner
//  P2 embedded client on another member (internally forwarded)
//  P3 cluster client (routes to the owner itself)
//  P4 raw RESP command sent to the owner
//  P5 raw RESP command sent to another member
//  P6 pipeline of the cluster client

import (
	"context"
	"encoding/hex"
	"fmt"
	"strconv"
	"time"

	"github.com/redis/go-redis/v9"
)

const (
	pOwnerEmb = 1
	pOtherEmb = 2
	pCluster  = 3
	pOwnerRaw = 4
	pOtherRaw = 5
	pPipeline = 6
)

var pathNames = map[int]string{1: "P1-emb-owner", 2: "P2-emb-other", 3: "P3-cluster", 4: "P4-raw-owner", 5: "P5-raw-other", 6: "P6-pipeline"}

// putOpt is a generated option combination of Put.
type putOpt struct {
	Cond string `json:"cond,omitempty"` // "", NX, XX
	Exp  string `json:"exp,omitempty"`  // "", EX, PX, EXAT, PXAT
	Ms   int64  `json:"ms,omitempty"`   // duration in ms (EX/PX) - for EXAT/PXAT the deadline is now+Ms
}

// vRes is a normalised result.
type vRes struct {
	Val   []byte  `json:"val,omitempty"`
	Found bool    `json:"found,omitempty"`
	TTL   int64   `json:"ttl,omitempty"` // absolute, unix ms; 0 = none
	Int   int64   `json:"int,omitempty"`
	F     float64 `json:"f,omitempty"`
	Err   string  `json:"err,omitempty"`
	Token []byte  `json:"token,omitempty"`
	Inv   int64   `json:"inv,omitempty"` // invocation, unix ns
	Ret   int64   `json:"ret,omitempty"` // response, unix ns
	AtMs  int64   `json:"at_ms,omitempty"`
}

func (r vRes) String() string {
	if r.Err != "" {
		return "err=" + r.Err
	}
	return fmt.Sprintf("found=%v val=%q int=%d f=%v ttl=%d", r.Found, r.Val, r.Int, r.F, r.TTL)
}

// pathClient executes operations on one DMap through one path. keyFor decides
// which member counts as "owner": the owner of the first key of the operation.
type pathClient struct {
	cl   *vCluster
	dmap string
	path int
	pick int
	// batch: on the pipeline path, Put and GetPut are followed by two more queued commands on neighbour keys
	// (key~batch1, key~batch2) before Exec - a pipeline is a batch. Off for checks that count or scan keys.
	batch bool
}

func (p *pathClient) effectivePath(key string) int {
	path := p.path
	if len(p.cl.live()) == 1 {
		if path == pOtherEmb {
			path = pOwnerEmb
		}
		if path == pOtherRaw {
			path = pOwnerRaw
		}
	}
	return path
}

func (p *pathClient) dm(key string) (DMap, error) {
	switch p.effectivePath(key) {
	case pOwnerEmb:
		return p.cl.ownerOf(p.dmap, key).emb.NewDMap(p.dmap)
	case pOtherEmb:
		return p.cl.nonOwner(p.dmap, key, p.pick).emb.NewDMap(p.dmap)
	default:
		cc, err := p.cl.clusterClient()
		if err != nil {
			return nil, err
		}
		return cc.NewDMap(p.dmap)
	}
}

func (p *pathClient) raw(key string) *redis.Client {
	if p.effectivePath(key) == pOwnerRaw {
		return p.cl.ownerOf(p.dmap, key).rc
	}
	return p.cl.nonOwner(p.dmap, key, p.pick).rc
}

func (p *pathClient) isRaw(key string) bool {
	e := p.effectivePath(key)
	return e == pOwnerRaw || e == pOtherRaw
}

func stamp(r *vRes, t0 time.Time) {
	r.Inv = t0.UnixNano()
	r.Ret = time.Now().UnixNano()
}

func optionsOf(o putOpt, now time.Time) []PutOption {
	var opts []PutOption
	d := time.Duration(o.Ms) * time.Millisecond
	switch o.Exp {
	case "EX":
		opts = append(opts, EX(d))
	case "PX":
		opts = append(opts, PX(d))
	case "EXAT":
		opts = append(opts, EXAT(time.Duration(now.Add(d).UnixNano())))
	case "PXAT":
		opts = append(opts, PXAT(time.Duration(now.Add(d).UnixNano())))
	}
	switch o.Cond {
	case "NX":
		opts = append(opts, NX())
	case "XX":
		opts = append(opts, XX())
	}
	return opts
}

func rawPutArgs(dmapName, key string, val []byte, o putOpt, now time.Time) []interface{} {
	args := []interface{}{"DM.PUT", dmapName, key, val}
	d := time.Duration(o.Ms) * time.Millisecond
	switch o.Exp {
	case "EX":
		args = append(args, "EX", strconv.FormatFloat(d.Seconds(), 'f', -1, 64))
	case "PX":
		args = append(args, "PX", strconv.FormatInt(o.Ms, 10))
	case "EXAT":
		args = append(args, "EXAT", strconv.FormatFloat(float64(now.Add(d).UnixNano())/1e9, 'f', -1, 64))
	case "PXAT":
		args = append(args, "PXAT", strconv.FormatInt(now.Add(d).UnixMilli(), 10))
	}
	if o.Cond != "" {
		args = append(args, o.Cond)
	}
	return args
}

func (p *pathClient) put(ctx context.Context, key string, val []byte, o putOpt) (r vRes) {
	t0 := time.Now()
	defer func() { stamp(&r, t0) }()
	if p.isRaw(key) {
		err := p.raw(key).Do(ctx, rawPutArgs(p.dmap, key, val, o, t0)...).Err()
		r.Err = errClass(err)
		return
	}
	dm, err := p.dm(key)
	if err != nil {
		r.Err = errClass(err)
		return
	}
	if p.effectivePath(key) == pPipeline {
		pl, err := dm.Pipeline()
		if err != nil {
			r.Err = errClass(err)
			return
		}
		defer pl.Close()
		f, err := pl.Put(ctx, key, val, optionsOf(o, t0)...)
		if err != nil {
			r.Err = errClass(err)
			return
		}
		// a pipeline is a batch: two more commands, on other keys and with other values, are queued behind the
		// one under test before anything is sent
		if p.batch {
			_, _ = pl.GetPut(ctx, key+"~batch1", []byte("a-batch-neighbour-value-1"))
			_, _ = pl.Put(ctx, key+"~batch2", []byte("a-batch-neighbour-value-2"))
		}
		if err := pl.Exec(ctx); err != nil {
			r.Err = errClass(err)
			return
		}
		r.Err = errClass(f.Result())
		return
	}
	r.Err = errClass(dm.Put(ctx, key, val, optionsOf(o, t0)...))
	return
}

func fromGetResponse(gr *GetResponse, err error) (r vRes) {
	if err != nil {
		r.Err = errClass(err)
		return
	}
	if gr == nil || gr.entry == nil {
		// the cluster client returns a nil response, the embedded client a response
		// without an entry (accessors return ErrNilResponse): both mean "no value"
		return
	}
	b, err := gr.Byte()
	if err != nil {
		r.Err = "other:byte:" + err.Error()
		return
	}
	r.Found = true
	r.Val = append([]byte(nil), b...)
	r.TTL = gr.TTL()
	return
}

func (p *pathClient) get(ctx context.Context, key string) (r vRes) {
	t0 := time.Now()
	defer func() { stamp(&r, t0) }()
	if p.isRaw(key) {
		b, err := p.raw(key).Do(ctx, "DM.GET", p.dmap, key).Text()
		if err != nil {
			r.Err = errClass(err)
			return
		}
		r.Found = true
		r.Val = []byte(b)
		r.TTL = -1 // not observable on this path
		return
	}
	dm, err := p.dm(key)
	if err != nil {
		r.Err = errClass(err)
		return
	}
	if p.effectivePath(key) == pPipeline {
		pl, err := dm.Pipeline()
		if err != nil {
			r.Err = errClass(err)
			return
		}
		defer pl.Close()
		f := pl.Get(ctx, key)
		if err := pl.Exec(ctx); err != nil {
			r.Err = errClass(err)
			return
		}
		return fromGetResponse(f.Result())
	}
	return fromGetResponse(dm.Get(ctx, key))
}

func (p *pathClient) del(ctx context.Context, keys ...string) (r vRes) {
	t0 := time.Now()
	defer func() { stamp(&r, t0) }()
	if p.isRaw(keys[0]) {
		args := []interface{}{"DM.DEL", p.dmap}
		for _, k := range keys {
			args = append(args, k)
		}
		n, err := p.raw(keys[0]).Do(ctx, args...).Int64()
		r.Err = errClass(err)
		r.Int = n
		return
	}
	dm, err := p.dm(keys[0])
	if err != nil {
		r.Err = errClass(err)
		return
	}
	if p.effectivePath(keys[0]) == pPipeline {
		pl, err := dm.Pipeline()
		if err != nil {
			r.Err = errClass(err)
			return
		}
		defer pl.Close()
		var fs []*FutureDelete
		for _, k := range keys {
			fs = append(fs, pl.Delete(ctx, k))
		}
		if err := pl.Exec(ctx); err != nil {
			r.Err = errClass(err)
			return
		}
		for _, f := range fs {
			n, err := f.Result()
			if err != nil {
				r.Err = errClass(err)
				return
			}
			r.Int += int64(n)
		}
		return
	}
	n, err := dm.Delete(ctx, keys...)
	r.Err = errClass(err)
	r.Int = int64(n)
	return
}

func (p *pathClient) expire(ctx context.Context, key string, ms int64, useP bool) (r vRes) {
	t0 := time.Now()
	defer func() { stamp(&r, t0) }()
	d := time.Duration(ms) * time.Millisecond
	if p.isRaw(key) {
		var err error
		if useP {
			err = p.raw(key).Do(ctx, "DM.PEXPIRE", p.dmap, key, strconv.FormatInt(ms, 10)).Err()
		} else {
			err = p.raw(key).Do(ctx, "DM.EXPIRE", p.dmap, key, strconv.FormatFloat(d.Seconds(), 'f', -1, 64)).Err()
		}
		r.Err = errClass(err)
		return
	}
	dm, err := p.dm(key)
	if err != nil {
		r.Err = errClass(err)
		return
	}
	if p.effectivePath(key) == pPipeline {
		pl, err := dm.Pipeline()
		if err != nil {
			r.Err = errClass(err)
			return
		}
		defer pl.Close()
		f, err := pl.Expire(ctx, key, d)
		if err != nil {
			r.Err = errClass(err)
			return
		}
		if err := pl.Exec(ctx); err != nil {
			r.Err = errClass(err)
			return
		}
		r.Err = errClass(f.Result())
		return
	}
	r.Err = errClass(dm.Expire(ctx, key, d))
	return
}

func (p *pathClient) getput(ctx context.Context, key string, val []byte) (r vRes) {
	t0 := time.Now()
	defer func() { stamp(&r, t0) }()
	if p.isRaw(key) {
		b, err := p.raw(key).Do(ctx, "DM.GETPUT", p.dmap, key, val).Text()
		if err == redis.Nil {
			return
		}
		if err != nil {
			r.Err = errClass(err)
			return
		}
		r.Found = true
		r.Val = []byte(b)
		r.TTL = -1
		return
	}
	dm, err := p.dm(key)
	if err != nil {
		r.Err = errClass(err)
		return
	}
	if p.effectivePath(key) == pPipeline {
		pl, err := dm.Pipeline()
		if err != nil {
			r.Err = errClass(err)
			return
		}
		defer pl.Close()
		f, err := pl.GetPut(ctx, key, val)
		if err != nil {
			r.Err = errClass(err)
			return
		}
		// a batch, see put
		if p.batch {
			_, _ = pl.GetPut(ctx, key+"~batch1", []byte("a-batch-neighbour-value-1"))
			_, _ = pl.Put(ctx, key+"~batch2", []byte("a-batch-neighbour-value-2"))
		}
		if err := pl.Exec(ctx); err != nil {
			r.Err = errClass(err)
			return
		}
		return fromGetResponse(f.Result())
	}
	return fromGetResponse(dm.GetPut(ctx, key, val))
}

func (p *pathClient) incr(ctx context.Context, key string, delta int, decr bool) (r vRes) {
	t0 := time.Now()
	defer func() { stamp(&r, t0) }()
	if p.isRaw(key) {
		name := "DM.INCR"
		if decr {
			name = "DM.DECR"
		}
		n, err := p.raw(key).Do(ctx, name, p.dmap, key, strconv.Itoa(delta)).Int64()
		r.Err = errClass(err)
		r.Int = n
		return
	}
	dm, err := p.dm(key)
	if err != nil {
		r.Err = errClass(err)
		return
	}
	if p.effectivePath(key) == pPipeline {
		pl, err := dm.Pipeline()
		if err != nil {
			r.Err = errClass(err)
			return
		}
		defer pl.Close()
		var n int
		if decr {
			f, err := pl.Decr(ctx, key, delta)
			if err != nil {
				r.Err = errClass(err)
				return
			}
			if err := pl.Exec(ctx); err != nil {
				r.Err = errClass(err)
				return
			}
			n, err = f.Result()
			r.Err = errClass(err)
		} else {
			f, err := pl.Incr(ctx, key, delta)
			if err != nil {
				r.Err = errClass(err)
				return
			}
			if err := pl.Exec(ctx); err != nil {
				r.Err = errClass(err)
				return
			}
			n, err = f.Result()
			r.Err = errClass(err)
		}
		r.Int = int64(n)
		return
	}
	var n int
	if decr {
		n, err = dm.Decr(ctx, key, delta)
	} else {
		n, err = dm.Incr(ctx, key, delta)
	}
	r.Err = errClass(err)
	r.Int = int64(n)
	return
}

func (p *pathClient) incrByFloat(ctx context.Context, key string, delta float64) (r vRes) {
	t0 := time.Now()
	defer func() { stamp(&r, t0) }()
	if p.isRaw(key) {
		f, err := p.raw(key).Do(ctx, "DM.INCRBYFLOAT", p.dmap, key, strconv.FormatFloat(delta, 'f', -1, 64)).Float64()
		r.Err = errClass(err)
		r.F = f
		return
	}
	dm, err := p.dm(key)
	if err != nil {
		r.Err = errClass(err)
		return
	}
	if p.effectivePath(key) == pPipeline {
		pl, err := dm.Pipeline()
		if err != nil {
			r.Err = errClass(err)
			return
		}
		defer pl.Close()
		f, err := pl.IncrByFloat(ctx, key, delta)
		if err != nil {
			r.Err = errClass(err)
			return
		}
		if err := pl.Exec(ctx); err != nil {
			r.Err = errClass(err)
			return
		}
		v, err := f.Result()
		r.Err = errClass(err)
		r.F = v
		return
	}
	v, err := dm.IncrByFloat(ctx, key, delta)
	r.Err = errClass(err)
	r.F = v
	return
}

// lock acquires the lock; timeoutMs == 0 means no timeout. The token is
// extracted white-box from the lock context so that the harness can present
// it (or a forged one) through any path later.
func (p *pathClient) lock(ctx context.Context, key string, timeoutMs, deadlineMs int64) (r vRes) {
	t0 := time.Now()
	defer func() { stamp(&r, t0) }()
	deadline := time.Duration(deadlineMs) * time.Millisecond
	timeout := time.Duration(timeoutMs) * time.Millisecond
	if p.isRaw(key) || p.effectivePath(key) == pPipeline {
		args := []interface{}{"DM.LOCK", p.dmap, key, strconv.FormatFloat(deadline.Seconds(), 'f', -1, 64)}
		if timeoutMs > 0 {
			if p.pick%2 == 1 {
				// the other spelling of the same timeout: seconds, with a fraction
				args = append(args, "EX", strconv.FormatFloat(timeout.Seconds(), 'f', -1, 64))
			} else {
				args = append(args, "PX", strconv.FormatInt(timeoutMs, 10))
			}
		}
		rc := p.cl.ownerOf(p.dmap, key).rc
		if p.isRaw(key) {
			rc = p.raw(key)
		}
		s, err := rc.Do(ctx, args...).Text()
		if err != nil {
			r.Err = errClass(err)
			return
		}
		tok, err := hex.DecodeString(s)
		if err != nil {
			r.Err = "other:token:" + err.Error()
			return
		}
		r.Token = tok
		return
	}
	dm, err := p.dm(key)
	if err != nil {
		r.Err = errClass(err)
		return
	}
	var lc LockContext
	if timeoutMs > 0 {
		lc, err = dm.LockWithTimeout(ctx, key, timeout, deadline)
	} else {
		lc, err = dm.Lock(ctx, key, deadline)
	}
	if err != nil {
		r.Err = errClass(err)
		return
	}
	switch c := lc.(type) {
	case *EmbeddedLockContext:
		r.Token = append([]byte(nil), c.token...)
	case *ClusterLockContext:
		tok, err := hex.DecodeString(c.token)
		if err != nil {
			r.Err = "other:token:" + err.Error()
			return
		}
		r.Token = tok
	}
	return
}

func (p *pathClient) unlock(ctx context.Context, key string, token []byte) (r vRes) {
	t0 := time.Now()
	defer func() { stamp(&r, t0) }()
	switch e := p.effectivePath(key); e {
	case pOwnerEmb, pOtherEmb:
		dmi, err := p.dm(key)
		if err != nil {
			r.Err = errClass(err)
			return
		}
		lc := &EmbeddedLockContext{key: key, token: token, dm: dmi.(*EmbeddedDMap)}
		r.Err = errClass(lc.Unlock(ctx))
	case pCluster, pPipeline:
		dmi, err := p.dm(key)
		if err != nil {
			r.Err = errClass(err)
			return
		}
		lc := &ClusterLockContext{key: key, token: hex.EncodeToString(token), dm: dmi.(*ClusterDMap)}
		r.Err = errClass(lc.Unlock(ctx))
	default:
		r.Err = errClass(p.raw(key).Do(ctx, "DM.UNLOCK", p.dmap, key, hex.EncodeToString(token)).Err())
	}
	return
}

func (p *pathClient) lease(ctx context.Context, key string, token []byte, ms int64) (r vRes) {
	t0 := time.Now()
	defer func() { stamp(&r, t0) }()
	d := time.Duration(ms) * time.Millisecond
	switch e := p.effectivePath(key); e {
	case pOwnerEmb, pOtherEmb:
		dmi, err := p.dm(key)
		if err != nil {
			r.Err = errClass(err)
			return
		}
		lc := &EmbeddedLockContext{key: key, token: token, dm: dmi.(*EmbeddedDMap)}
		r.Err = errClass(lc.Lease(ctx, d))
	case pCluster, pPipeline:
		dmi, err := p.dm(key)
		if err != nil {
			r.Err = errClass(err)
			return
		}
		lc := &ClusterLockContext{key: key, token: hex.EncodeToString(token), dm: dmi.(*ClusterDMap)}
		r.Err = errClass(lc.Lease(ctx, d))
	default:
		if p.pick%2 == 1 {
			r.Err = errClass(p.raw(key).Do(ctx, "DM.LOCKLEASE", p.dmap, key, hex.EncodeToString(token), strconv.FormatFloat(d.Seconds(), 'f', -1, 64)).Err())
		} else {
			r.Err = errClass(p.raw(key).Do(ctx, "DM.PLOCKLEASE", p.dmap, key, hex.EncodeToString(token), strconv.FormatInt(ms, 10)).Err())
		}
	}
	return
}
