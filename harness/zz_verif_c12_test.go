package olric

// C12 (cluster level): a full scan returns every stable key exactly once and nothing else.

import (
	"context"
	"encoding/json"
	"fmt"
	"regexp"
	"strconv"
	"strings"
	"sync"
	"testing"
	"time"

	"github.com/olric-data/olric/internal/cluster/partitions"
	"github.com/olric-data/olric/internal/zzverif/vcommon"
	"pgregory.net/rapid"
)

type c12Hist struct {
	Op string `json:"op"` // put del compact
	K  int    `json:"k,omitempty"`
	S  int    `json:"s,omitempty"` // value size
}

type c12Scan struct {
	Kind   string `json:"kind"` // emb cluster rawprimary rawreplica
	Member int    `json:"member"`
	Count  int    `json:"count"`
	Match  string `json:"match,omitempty"`
	Mutate bool   `json:"mutate,omitempty"` // concurrent writes/deletes of other keys during the iteration
}

type c12Case struct {
	Opts  vOpts     `json:"opts"`
	NKeys int       `json:"nkeys"`
	Hist  []c12Hist `json:"hist"`
	Scans []c12Scan `json:"scans"`
}

func genC12(t *rapid.T) *c12Case {
	c := &c12Case{}
	c.Opts.Members = rapid.IntRange(1, 3).Draw(t, "members")
	c.Opts.Replicas = rapid.IntRange(1, 2).Draw(t, "replicas")
	if c.Opts.Replicas > c.Opts.Members {
		c.Opts.Replicas = c.Opts.Members
	}
	c.Opts.Partitions = rapid.SampledFrom([]int{1, 3, 7, 13}).Draw(t, "partitions")
	if c.Opts.Partitions < c.Opts.Members {
		c.Opts.Partitions = 3
	}
	c.Opts.TableSize = rapid.SampledFrom([]int{512, 1024, 0}).Draw(t, "tableSize")
	c.NKeys = rapid.SampledFrom([]int{0, 1, 5, 20, 60, 120}).Draw(t, "nkeys")
	nh := rapid.IntRange(0, 3*c.NKeys+3).Draw(t, "nhist")
	for i := 0; i < nh && c.NKeys > 0; i++ {
		h := c12Hist{Op: rapid.SampledFrom([]string{"put", "put", "put", "del", "compact"}).Draw(t, "hop")}
		if h.Op != "compact" {
			h.K = rapid.IntRange(0, c.NKeys-1).Draw(t, "hk")
			h.S = rapid.SampledFrom([]int{1, 20, 90}).Draw(t, "hs")
		}
		c.Hist = append(c.Hist, h)
	}
	ns := rapid.IntRange(1, 4).Draw(t, "nscans")
	for i := 0; i < ns; i++ {
		s := c12Scan{Kind: rapid.SampledFrom([]string{"emb", "cluster", "rawprimary", "rawreplica"}).Draw(t, "kind")}
		s.Member = rapid.IntRange(0, 2).Draw(t, "member")
		s.Count = rapid.SampledFrom([]int{1, 2, 3, 10, 1000}).Draw(t, "count")
		s.Match = rapid.SampledFrom([]string{"", "", "^k1", "5$", "1|2", ".", "^nomatch$"}).Draw(t, "match")
		s.Mutate = rapid.IntRange(0, 3).Draw(t, "mutate") == 0
		c.Scans = append(c.Scans, s)
	}
	return c
}

func rawScanPartition(ctx context.Context, m *vMember, name string, partID uint64, s c12Scan, replica bool, bound int) (map[string]int, error) {
	seen := map[string]int{}
	cursor := "0"
	for calls := 0; ; calls++ {
		if calls > bound {
			return seen, fmt.Errorf("DM.SCAN on partition %d did not finish within %d calls", partID, bound)
		}
		args := []interface{}{"DM.SCAN", strconv.FormatUint(partID, 10), name, cursor}
		if s.Match != "" {
			args = append(args, "MATCH", s.Match)
		}
		args = append(args, "COUNT", strconv.Itoa(s.Count))
		if replica {
			args = append(args, "RC")
		}
		res, err := m.rc.Do(ctx, args...).Slice()
		if err != nil {
			return seen, err
		}
		if len(res) != 2 {
			return seen, fmt.Errorf("malformed DM.SCAN reply %v", res)
		}
		cursor, _ = res[0].(string)
		keys, _ := res[1].([]interface{})
		for _, k := range keys {
			seen[k.(string)]++
		}
		if cursor == "0" {
			return seen, nil
		}
	}
}

func runC12(c *c12Case) (v *vcommon.Violation, nontrivial, inconclusive bool) {
	cl, err := pooledCluster(c.Opts)
	if err != nil {
		return nil, false, true
	}
	ctx, cancel := context.WithTimeout(context.Background(), 90*time.Second)
	defer cancel()
	name := freshName("c12-")
	model := map[string]bool{}
	bad := func(class, format string, args ...interface{}) *vcommon.Violation {
		return vcommon.NewViolation("C12", "cluster", class, c, format, args...)
	}
	keyOf := func(i int) string { return "k" + strconv.Itoa(i) }
	live := cl.live()
	for i, h := range c.Hist {
		switch h.Op {
		case "put":
			pc := &pathClient{cl: cl, dmap: name, path: 1 + i%3}
			if r := pc.put(ctx, keyOf(h.K), []byte(strings.Repeat("v", h.S)), putOpt{}); r.Err != "" {
				return nil, false, true
			}
			model[keyOf(h.K)] = true
		case "del":
			pc := &pathClient{cl: cl, dmap: name, path: 1 + i%3}
			if r := pc.del(ctx, keyOf(h.K)); r.Err != "" {
				return nil, false, true
			}
			delete(model, keyOf(h.K))
		case "compact":
			for _, m := range live {
				for p := uint64(0); p < uint64(c.Opts.Partitions); p++ {
					m.db.dmap.VerifCompact(name, p, partitions.PRIMARY, 200)
					m.db.dmap.VerifCompact(name, p, partitions.BACKUP, 200)
				}
			}
		}
	}
	// shape of the tables: several tables / gaps?
	multi := false
	for _, m := range live {
		for p := uint64(0); p < uint64(c.Opts.Partitions); p++ {
			if st, ok := m.db.dmap.VerifFragmentStats(name, p, partitions.PRIMARY); ok && st.NumTables >= 2 {
				multi = true
			}
		}
	}
	for si, s := range c.Scans {
		var re *regexp.Regexp
		if s.Match != "" {
			re = regexp.MustCompile(s.Match)
		}
		if s.Count == 1 || (multi && s.Count < 1000) || (s.Match != "" && len(model) > 0) {
			nontrivial = true
		}
		stop := make(chan struct{})
		var wg sync.WaitGroup
		if s.Mutate {
			wg.Add(1)
			go func() {
				defer wg.Done()
				pc := &pathClient{cl: cl, dmap: name, path: pCluster}
				for j := 0; ; j++ {
					select {
					case <-stop:
						return
					default:
					}
					k := "m" + strconv.Itoa(j%15) // other keys only; "m..." never matches the stable family
					if j%3 == 2 {
						pc.del(ctx, k)
					} else {
						pc.put(ctx, k, []byte(strings.Repeat("w", 30+j%60)), putOpt{})
					}
				}
			}()
		}
		seen := map[string]int{}
		var scanErr error
		member := live[s.Member%len(live)]
		bound := (len(model)+40)*4 + c.Opts.Partitions*len(live)*4 + 200
		exactlyOnce := false
		switch s.Kind {
		case "emb", "cluster":
			exactlyOnce = true
			var dm DMap
			if s.Kind == "emb" {
				dm, err = member.emb.NewDMap(name)
			} else {
				var cc *ClusterClient
				cc, err = cl.clusterClient()
				if err == nil {
					dm, err = cc.NewDMap(name)
				}
			}
			if err != nil {
				close(stop)
				wg.Wait()
				return nil, nontrivial, true
			}
			opts := []ScanOption{Count(s.Count)}
			if s.Match != "" {
				opts = append(opts, Match(s.Match))
			}
			it, err := dm.Scan(ctx, opts...)
			if err != nil {
				scanErr = err
				break
			}
			n := 0
			for it.Next() {
				seen[it.Key()]++
				n++
				if n > bound*s.Count+bound {
					scanErr = fmt.Errorf("iterator yielded %d keys without finishing", n)
					break
				}
			}
			it.Close()
		case "rawprimary":
			for p := uint64(0); p < uint64(c.Opts.Partitions) && scanErr == nil; p++ {
				owner := cl.byName(live[0].db.primary.PartitionByID(p).Owner().Name)
				got, err := rawScanPartition(ctx, owner, name, p, s, false, bound)
				scanErr = err
				for k, n := range got {
					seen[k] += n
				}
			}
		case "rawreplica":
			if c.Opts.Replicas < 2 {
				close(stop)
				wg.Wait()
				continue
			}
			for p := uint64(0); p < uint64(c.Opts.Partitions) && scanErr == nil; p++ {
				for _, o := range live[0].db.backup.PartitionByID(p).Owners() {
					got, err := rawScanPartition(ctx, cl.byName(o.Name), name, p, s, true, bound)
					scanErr = err
					for k := range got {
						seen[k] = 1
					}
				}
			}
		}
		close(stop)
		wg.Wait()
		desc := fmt.Sprintf("scan %d (%s via %s, count=%d, match=%q, mutate=%v)", si, s.Kind, member.name, s.Count, s.Match, s.Mutate)
		if scanErr != nil {
			if strings.Contains(scanErr.Error(), "did not finish") || strings.Contains(scanErr.Error(), "without finishing") {
				return bad("no-termination", "%s: %v", desc, scanErr), nontrivial, false
			}
			return bad("scan-error", "%s failed: %v", desc, scanErr), nontrivial, false
		}
		for k := range model {
			want := re == nil || re.MatchString(k)
			if want && seen[k] == 0 {
				return bad("missing:"+s.Kind, "%s did not yield the stable key %q (%d of %d keys yielded)", desc, k, len(seen), len(model)), nontrivial, false
			}
			if !want && seen[k] > 0 {
				return bad("match:"+s.Kind, "%s yielded %q which does not match", desc, k), nontrivial, false
			}
			if exactlyOnce && seen[k] > 1 {
				return bad("duplicate:"+s.Kind, "%s yielded the stable key %q %d times", desc, k, seen[k]), nontrivial, false
			}
		}
		for k := range seen {
			if strings.HasPrefix(k, "m") && s.Mutate {
				if re != nil && !re.MatchString(k) {
					return bad("match:"+s.Kind, "%s yielded %q which does not match", desc, k), nontrivial, false
				}
				continue
			}
			if !model[k] {
				// keys of the mutating family left over from an earlier scan of this case are fine
				if strings.HasPrefix(k, "m") {
					continue
				}
				return bad("ghost:"+s.Kind, "%s yielded %q which was deleted before the scan or never stored", desc, k), nontrivial, false
			}
		}
	}
	return nil, nontrivial, false
}

func TestVerifC12Cluster(t *testing.T) {
	p := vcommon.Env()
	t.Cleanup(shutdownPool)
	if p.Replay != "" {
		v, err := vcommon.LoadViolation(p.Replay)
		if err != nil {
			t.Fatal(err)
		}
		c := &c12Case{}
		if err := json.Unmarshal(v.Case, c); err != nil {
			t.Fatal(err)
		}
		for i := 0; i < 3; i++ {
			got, _, _ := runC12(c)
			if got != nil {
				path := vcommon.SaveViolation(got)
				fmt.Printf("VERIF-VIOLATION %s %s\n", path, got.Message)
				t.Fatalf("replay still fails: %s", got.Message)
			}
		}
		return
	}
	col := vcommon.NewCollector("C12", "cluster")
	t.Cleanup(col.Flush)
	rapid.Check(t, func(rt *rapid.T) {
		c := genC12(rt)
		v, nt, inc := runC12(c)
		if inc || (v != nil && transportNoise(v.Message)) {
			col.Inconclusive()
			return
		}
		labels := []string{fmt.Sprintf("members:%d", c.Opts.Members), fmt.Sprintf("replicas:%d", c.Opts.Replicas)}
		for _, s := range c.Scans {
			labels = append(labels, "scan:"+s.Kind)
		}
		col.Record(vcommon.MustJSON(c), nt, labels...)
		if v != nil {
			if vcommon.Known(v.Class) {
				col.ExcludedKnown()
				return
			}
			vcommon.SaveViolation(v)
			rt.Fatalf("%s", v.Message)
		}
	})
}
