package kvstore

// C12 (engine level): a full cursor scan returns every present key and nothing else,
// for every page size and table layout (holes in the numbering, recycled tables).

import (
	"testing"

	"github.com/olric-data/olric/internal/zzverif/vcommon"
)

func TestVerifC12Engine(t *testing.T) {
	if replayKV(t, "C12") {
		return
	}
	nontrivial := func(l map[string]bool) bool {
		return l["scan-over-holes-or-recycled"] || l["scan-count1"] || l["scan-match-filters"]
	}
	// only scan-related classes belong to C12; map-behaviour classes are C11's
	accept := func(v *vcommon.Violation) bool {
		return len(v.Class) >= 4 && v.Class[:4] == "scan"
	}
	kvProperty(t, "C12", "engine", 150, true, nontrivial, accept)
}
