package kvstore

// C11: the storage engine behaves as a map under compaction and table transfer.

import (
	"fmt"
	"os"
	"testing"

	"github.com/olric-data/olric/internal/zzverif/vcommon"
)

func c11Nontrivial(l map[string]bool) bool { return l["nt"] }

// TestVerifC11Rapid: long random sequences, model checked after every step.
func TestVerifC11Rapid(t *testing.T) {
	if replayKV(t, "C11") {
		return
	}
	kvProperty(t, "C11", "rapid", 120, true, c11Nontrivial, func(*vcommon.Violation) bool { return true })
}

// c11Alphabet is the symbol set of the exhaustive enumeration: 2 keys, 2 sizes.
var c11Alphabet = []kvOp{
	{Op: "put", K: 0, S: 0}, {Op: "put", K: 0, S: 1}, {Op: "put", K: 1, S: 0}, {Op: "put", K: 1, S: 1},
	{Op: "putraw", K: 0, S: 0}, {Op: "putraw", K: 0, S: 1}, {Op: "putraw", K: 1, S: 0}, {Op: "putraw", K: 1, S: 1},
	{Op: "del", K: 0}, {Op: "del", K: 1},
	{Op: "ttl", K: 0, TTL: 9}, {Op: "ttl", K: 1, TTL: 9},
	{Op: "compact1"}, {Op: "compactall"}, {Op: "transfer"},
}

// TestVerifC11Exhaustive enumerates every sequence over the alphabet up to a
// length bound. The full comparison runs after the last step only: every
// prefix is itself one of the enumerated sequences.
func TestVerifC11Exhaustive(t *testing.T) {
	p := vcommon.Env()
	if p.Replay != "" {
		return
	}
	col := vcommon.NewCollector("C11", "exhaustive")
	col.SetExhaustive()
	t.Cleanup(col.Flush)
	maxLen := 4
	if p.Thorough() {
		maxLen = 6
	}
	if p.Tier == "quick" && p.Scale >= 1 {
		maxLen = 5
	}
	// table of 128 bytes: small entry 29+1+9=39 (three fit), large 29+1+46=76 (one large + one small fit)
	base := kvCase{TableSize: 128, Keys: []string{"a", "b"}, Sizes: []int{9, 46}}
	na := len(c11Alphabet)
	var idx int64
	for l := 1; l <= maxLen; l++ {
		total := 1
		for i := 0; i < l; i++ {
			total *= na
		}
		seq := make([]int, l)
		for n := 0; n < total; n++ {
			idx++
			if int(idx%int64(p.Shards)) != p.Shard {
				continue
			}
			x := n
			for i := 0; i < l; i++ {
				seq[i] = x % na
				x /= na
			}
			c := base
			c.Ops = make([]kvOp, l)
			for i, s := range seq {
				c.Ops[i] = c11Alphabet[s]
			}
			v, labels := runKVCase(&c, false)
			col.RecordEnumerated(labels["nt"], func() []byte { return vcommon.MustJSON(&c) })
			for _, lb := range labelList(labels) {
				col.Label(lb, 1)
			}
			if v != nil {
				v.Property, v.Part = "C11", "exhaustive"
				path := vcommon.SaveViolation(v)
				fmt.Printf("VERIF-VIOLATION %s %s\n", path, v.Message)
				if v.Class == "put-never-returns" {
					col.Flush()
					os.Exit(3)
				}
				t.Fatalf("%s", v.Message)
			}
		}
	}
	col.Note(fmt.Sprintf("all sequences of length 1..%d over %d symbols", maxLen, na))
}
