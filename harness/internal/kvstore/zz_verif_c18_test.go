package kvstore

// C18 (engine contract): "The returned Entry is its own copy, it is safe to
// modify the contents of the returned slice" (kvstore.Get).

import (
	"bytes"
	"fmt"
	"testing"

	"github.com/olric-data/olric/internal/kvstore/entry"
	"github.com/olric-data/olric/internal/zzverif/vcommon"
	"pgregory.net/rapid"
)

type c18eCase struct {
	TableSize int   `json:"table_size"`
	Lens      []int `json:"lens"`
	Churn     int   `json:"churn"`
	Mutate    bool  `json:"mutate"`
	Compact   bool  `json:"compact"`
}

func TestVerifC18Engine(t *testing.T) {
	p := vcommon.Env()
	if p.Replay != "" {
		return
	}
	col := vcommon.NewCollector("C18", "engine")
	t.Cleanup(col.Flush)
	rapid.Check(t, func(rt *rapid.T) {
		c := &c18eCase{TableSize: rapid.SampledFrom([]int{256, 512, 1024}).Draw(rt, "ts")}
		n := rapid.IntRange(1, 4).Draw(rt, "n")
		for i := 0; i < n; i++ {
			c.Lens = append(c.Lens, rapid.IntRange(1, 40).Draw(rt, "len"))
		}
		c.Churn = rapid.SampledFrom([]int{0, 20, 200}).Draw(rt, "churn")
		c.Mutate = rapid.Bool().Draw(rt, "mutate")
		c.Compact = rapid.Bool().Draw(rt, "compact")
		s := newKVStore(c.TableSize)
		put := func(h uint64, key string, val []byte) {
			e := entry.New()
			e.SetKey(key)
			e.SetValue(val)
			if err := s.Put(h, e); err != nil {
				rt.Fatalf("put: %v", err)
			}
		}
		type held struct{ got, private []byte }
		var hs []held
		model := map[int][]byte{}
		for i, l := range c.Lens {
			val := bytes.Repeat([]byte{byte('A' + i)}, l)
			put(kvHKey(i), fmt.Sprintf("k%d", i), val)
			model[i] = val
			e, err := s.Get(kvHKey(i))
			if err != nil {
				rt.Fatalf("get: %v", err)
			}
			hs = append(hs, held{got: e.Value(), private: append([]byte(nil), e.Value()...)})
		}
		if c.Mutate {
			for _, h := range hs {
				for j := range h.got {
					h.got[j] = '#'
				}
				copy(h.private, h.got)
			}
		}
		for j := 0; j < c.Churn; j++ {
			put(kvHKey(100+j%5), fmt.Sprintf("c%d", j%5), bytes.Repeat([]byte{'z'}, 5+j%30))
			if j%9 == 0 {
				_ = s.Delete(kvHKey(100 + (j+1)%5))
			}
		}
		if c.Compact {
			for i := 0; i < 200; i++ {
				if done, _ := s.Compaction(); done {
					break
				}
			}
		}
		col.Record(vcommon.MustJSON(c), c.Mutate || c.Churn >= 200, fmt.Sprintf("churn:%d", c.Churn))
		fail := func(class, format string, args ...interface{}) {
			v := vcommon.NewViolation("C18", "engine", class, c, format, args...)
			vcommon.SaveViolation(v)
			rt.Fatalf("%s", v.Message)
		}
		for i, h := range hs {
			if !bytes.Equal(h.got, h.private) {
				fail("returned-value-changed", "value %d returned by Get was %q and now reads %q", i, h.private, h.got)
			}
		}
		for i, want := range model {
			e, err := s.Get(kvHKey(i))
			if err != nil || !bytes.Equal(e.Value(), want) {
				fail("stored-value-changed", "key %d reads %q, %v after the caller modified the slice Get returned; stored value was %q", i, e.Value(), err, want)
			}
		}
	})
}
