package kvstore

// C20 (engine level): storage stays bounded under overwrite and delete churn.

import (
	"encoding/json"
	"fmt"
	"testing"

	"github.com/olric-data/olric/internal/kvstore/entry"
	"github.com/olric-data/olric/internal/kvstore/table"
	"github.com/olric-data/olric/internal/zzverif/vcommon"
	"pgregory.net/rapid"
)

type c20Case struct {
	TableSize int    `json:"table_size"`
	Keys      int    `json:"keys"`
	Sizes     []int  `json:"sizes"` // value sizes to draw from (each <= table/4 - 40)
	Raw       bool   `json:"raw"`   // write through PutRaw (backup path)
	Rounds    int    `json:"rounds"`
	PerRound  int    `json:"per_round"`
	Seed      uint64 `json:"seed"` // drives the op stream (splitmix), so the case stays small
	DelPct    int    `json:"del_pct"`
	TTLPct    int    `json:"ttl_pct"`
}

func genC20(t *rapid.T, thorough bool) *c20Case {
	c := &c20Case{}
	c.TableSize = rapid.SampledFrom([]int{512, 1024, 2048, 8192}).Draw(t, "tableSize")
	c.Keys = rapid.IntRange(5, 50).Draw(t, "keys")
	maxv := c.TableSize/4 - 45
	ns := rapid.IntRange(1, 3).Draw(t, "nsizes")
	for i := 0; i < ns; i++ {
		c.Sizes = append(c.Sizes, rapid.IntRange(0, maxv).Draw(t, "size"))
	}
	c.Raw = rapid.Bool().Draw(t, "raw")
	c.Rounds = rapid.IntRange(3, 12).Draw(t, "rounds")
	hi := 400
	if thorough {
		hi = 8000
	}
	c.PerRound = rapid.IntRange(10, hi).Draw(t, "perRound")
	c.Seed = rapid.Uint64().Draw(t, "seed")
	c.DelPct = rapid.SampledFrom([]int{0, 10, 30}).Draw(t, "delPct")
	c.TTLPct = rapid.SampledFrom([]int{0, 10}).Draw(t, "ttlPct")
	return c
}

type splitmix struct{ x uint64 }

func (s *splitmix) next() uint64 {
	s.x += 0x9e3779b97f4a7c15
	z := s.x
	z = (z ^ (z >> 30)) * 0xbf58476d1ce4e5b9
	z = (z ^ (z >> 27)) * 0x94d049bb133111eb
	return z ^ (z >> 31)
}

func runC20(c *c20Case) (v *vcommon.Violation, labels map[string]bool) {
	labels = map[string]bool{}
	s := newKVStore(c.TableSize)
	fail := func(class, format string, args ...interface{}) *vcommon.Violation {
		return vcommon.NewViolation("C20", "engine", class, c, format, args...)
	}
	live := map[int]int{} // key index -> encoded size
	rng := &splitmix{x: c.Seed}
	emax := 0
	for _, sz := range c.Sizes {
		if n := sz + 29 + 8; n > emax {
			emax = n
		}
	}
	keyOf := func(i int) string { return fmt.Sprintf("key-%04d", i) }
	peakLive := 0
	recycledSeen := false
	// emptied tables stay allocated (recycled, reused by the next makeTable) until their idle timeout, so the
	// table count is governed by the largest amount written between two compaction runs so far
	maxRoundBytes := 0
	for round := 0; round < c.Rounds; round++ {
		roundBytes := 0
		for j := 0; j < c.PerRound; j++ {
			k := int(rng.next() % uint64(c.Keys))
			h := kvHKey(k)
			p := int(rng.next() % 100)
			switch {
			case p < c.DelPct:
				if err := s.Delete(h); err != nil {
					return fail("delete-error", "Delete: %v", err), labels
				}
				delete(live, k)
			case p < c.DelPct+c.TTLPct:
				e := entry.New()
				e.SetTTL(int64(j + 1))
				e.SetTimestamp(int64(round*c.PerRound + j))
				_ = s.UpdateTTL(h, e)
			default:
				val := make([]byte, c.Sizes[int(rng.next()%uint64(len(c.Sizes)))])
				e := entry.New()
				e.SetKey(keyOf(k))
				e.SetValue(val)
				e.SetTimestamp(int64(round*c.PerRound + j))
				var err error
				if c.Raw {
					err = s.PutRaw(h, e.Encode())
				} else {
					err = s.Put(h, e)
				}
				if err != nil {
					return fail("put-error", "write failed: %v", err), labels
				}
				live[k] = len(keyOf(k)) + len(val) + table.MetadataLength
				roundBytes += live[k]
				if roundBytes > maxRoundBytes {
					maxRoundBytes = roundBytes
				}
			}
			sum := 0
			for _, n := range live {
				sum += n
			}
			if sum > peakLive {
				peakLive = sum
			}
		}
		// exact accounting: superseded bytes must have left "inuse"
		want := 0
		for _, n := range live {
			want += n
		}
		st := s.Stats()
		if st.Inuse != want {
			return fail("inuse-accounting", "round %d: Stats().Inuse = %d, live entries occupy %d bytes (garbage %d, tables %d)", round, st.Inuse, want, st.Garbage, st.NumTables), labels
		}
		if st.Length != len(live) {
			return fail("length", "round %d: Stats().Length = %d, %d keys are live", round, st.Length, len(live)), labels
		}
		// progress: compaction until done, bounded
		bound := (st.Length/1000+2)*(st.NumTables+1)*2 + 4
		done := false
		for i := 0; i < bound; i++ {
			d, err := s.Compaction()
			if err != nil {
				return fail("compaction-error", "Compaction: %v", err), labels
			}
			if d {
				done = true
				break
			}
		}
		if !done {
			return fail("compaction-no-progress", "round %d: Compaction did not report completion within %d calls (tables %d)", round, bound, st.NumTables), labels
		}
		for i, t := range s.tables {
			ts := t.Stats()
			if t.State() == table.RecycledState {
				recycledSeen = true
				continue
			}
			if float64(ts.Garbage) >= float64(ts.Allocated)*maxGarbageRatio {
				return fail("garbage-above-threshold", "round %d: after compaction completed table %d still has %d garbage bytes of %d", round, i, ts.Garbage, ts.Allocated), labels
			}
		}
		st = s.Stats()
		if st.Inuse != want {
			return fail("inuse-accounting", "round %d: after compaction Stats().Inuse = %d, live entries occupy %d bytes", round, st.Inuse, want), labels
		}
		// bound on the number of tables ever allocated: closed tables that survive compaction hold more
		// than 0.6*S - e_max live bytes; during a round at most roundBytes/(S-e_max)+1 tables are opened.
		den := int(0.6*float64(c.TableSize)) - emax
		// plus the tables opened while compaction moves the live entries, and one each for rounding
		maxTables := (peakLive+den-1)/den + (maxRoundBytes+(c.TableSize-emax)-1)/(c.TableSize-emax) + (peakLive+(c.TableSize-emax)-1)/(c.TableSize-emax) + 4
		if st.NumTables > maxTables {
			return fail("unbounded-tables", "round %d: %d tables allocated (%d bytes) for %d live bytes (peak %d); bound %d tables", round, st.NumTables, st.Allocated, want, peakLive, maxTables), labels
		}
	}
	if recycledSeen {
		labels["recycled"] = true
	}
	if c.Raw {
		labels["raw"] = true
	}
	return nil, labels
}

func TestVerifC20Engine(t *testing.T) {
	p := vcommon.Env()
	if p.Replay != "" {
		v, err := vcommon.LoadViolation(p.Replay)
		if err != nil {
			t.Fatal(err)
		}
		c := &c20Case{}
		if err := json.Unmarshal(v.Case, c); err != nil {
			t.Fatal(err)
		}
		if got, _ := runC20(c); got != nil {
			path := vcommon.SaveViolation(got)
			fmt.Printf("VERIF-VIOLATION %s %s\n", path, got.Message)
			t.Fatalf("replay still fails: %s", got.Message)
		}
		return
	}
	col := vcommon.NewCollector("C20", "engine")
	t.Cleanup(col.Flush)
	rapid.Check(t, func(rt *rapid.T) {
		c := genC20(rt, p.Thorough())
		v, labels := runC20(c)
		col.Record(vcommon.MustJSON(c), c.Rounds >= 3 && labels["recycled"], labelList(labels)...)
		if v != nil {
			vcommon.SaveViolation(v)
			rt.Fatalf("%s", v.Message)
		}
	})
}
