package kvstore

// Shared engine-level machinery for C11 / C12 / C20 (injected through the
// overlay; never part of the repository).

import (
	"encoding/json"
	"errors"
	"fmt"
	"io"
	"os"
	"regexp"
	"sort"
	"testing"
	"time"

	"github.com/olric-data/olric/internal/kvstore/entry"
	"github.com/olric-data/olric/internal/zzverif/vcommon"
	"github.com/olric-data/olric/pkg/storage"
	"pgregory.net/rapid"
)

// kvOp is one step of an engine case.
type kvOp struct {
	Op  string `json:"op"` // put putraw del ttl compact1 compactall transfer transferdup scan
	K   int    `json:"k,omitempty"`
	S   int    `json:"s,omitempty"`   // size class index into kvCase.Sizes, or -1: value makes the entry exactly table size, -2: table size+1, -3: table size-1
	TTL int64  `json:"ttl,omitempty"` // ttl value to store
	N   int    `json:"n,omitempty"`   // scan COUNT
	M   string `json:"m,omitempty"`   // scan MATCH
}

type kvCase struct {
	TableSize int      `json:"table_size"`
	IdleNs    int64    `json:"idle_table_timeout_ns,omitempty"` // 0: default (15 min, recycled tables are never freed inside a case)
	Keys      []string `json:"keys"`
	Sizes     []int    `json:"sizes"` // value lengths
	Ops       []kvOp   `json:"ops"`
}

type kvModelEntry struct {
	value []byte
	ttl   int64
	ts    int64
}

type kvRunner struct {
	c       *kvCase
	s       *KVStore
	model   map[int]*kvModelEntry
	step    int
	cls     string
	labels  map[string]bool
	everTab int // max tables seen
}

func kvHKey(i int) uint64 { return uint64(1000 + i*7919) }

func newKVStore(tableSize int) *KVStore { return newKVStoreIdle(tableSize, 0) }

func newKVStoreIdle(tableSize int, idleNs int64) *KVStore {
	c := DefaultConfig()
	c.Add("tableSize", tableSize)
	if idleNs > 0 {
		c.Add("maxIdleTableTimeout", time.Duration(idleNs))
	}
	s, err := New(c)
	if err != nil {
		panic(err)
	}
	return s
}

func (r *kvRunner) valueFor(op kvOp, key string) []byte {
	var n int
	switch {
	case op.S >= 0:
		n = r.c.Sizes[op.S%len(r.c.Sizes)]
	case op.S == -1:
		n = r.c.TableSize - len(key) - 29
	case op.S == -2:
		n = r.c.TableSize - len(key) - 29 + 1
	default:
		n = r.c.TableSize - len(key) - 29 - 1
	}
	if n < 0 {
		n = 0
	}
	v := make([]byte, n)
	for i := range v {
		v[i] = byte(r.step*31 + i*7 + op.K)
	}
	return v
}

// guarded runs f with a watchdog: a call that does not return (the engine
// allocating tables forever) is reported as a violation and the process ends,
// because the spinning goroutine cannot be stopped.
func (r *kvRunner) guarded(what string, f func() error) (err error, hung bool) {
	done := make(chan error, 1)
	go func() { done <- f() }()
	deadline := time.After(20 * time.Second)
	tick := time.NewTicker(2 * time.Millisecond)
	defer tick.Stop()
	for {
		select {
		case err := <-done:
			return err, false
		case <-tick.C:
			if len(r.s.tables) > 200000 {
				return nil, true
			}
		case <-deadline:
			return nil, true
		}
	}
}

func (r *kvRunner) fail(class, format string, args ...interface{}) *vcommon.Violation {
	cut := *r.c
	if r.step+1 < len(cut.Ops) {
		cut.Ops = cut.Ops[:r.step+1] // later steps are irrelevant to the failure
	}
	v := vcommon.NewViolation("", "", class, &cut, format, args...)
	v.Message = fmt.Sprintf("step %d (%s): %s", r.step, opString(r.c, r.step), v.Message)
	return v
}

func opString(c *kvCase, i int) string {
	if i < 0 || i >= len(c.Ops) {
		return "end"
	}
	return string(vcommon.MustJSON(c.Ops[i]))
}

// apply executes one operation against the engine and the model.
func (r *kvRunner) apply(op kvOp) *vcommon.Violation {
	nk := len(r.c.Keys)
	switch op.Op {
	case "put", "putraw":
		k := op.K % nk
		key := r.c.Keys[k]
		val := r.valueFor(op, key)
		total := len(key) + len(val) + 29
		ts := int64(r.step + 1)
		e := entry.New()
		e.SetKey(key)
		e.SetValue(val)
		e.SetTTL(op.TTL)
		e.SetTimestamp(ts)
		e.SetLastAccess(12345)
		var err error
		var hung bool
		call := func() error {
			if op.Op == "put" {
				return r.s.Put(kvHKey(k), e)
			}
			return r.s.PutRaw(kvHKey(k), e.Encode())
		}
		if total >= r.c.TableSize-1 {
			err, hung = r.guarded(op.Op, call)
			if hung {
				v := r.fail("put-never-returns", "%s of an entry of %d bytes into tables of %d bytes does not return (tables=%d)", op.Op, total, r.c.TableSize, len(r.s.tables))
				return v
			}
		} else {
			err = call()
		}
		switch {
		case total < r.c.TableSize:
			if err != nil {
				return r.fail("put-error", "%s of an entry of %d bytes (table %d) failed: %v", op.Op, total, r.c.TableSize, err)
			}
			r.model[k] = &kvModelEntry{value: val, ttl: op.TTL, ts: ts}
		case total > r.c.TableSize:
			if !errors.Is(err, storage.ErrEntryTooLarge) {
				return r.fail("too-large-not-rejected", "%s of an entry of %d bytes (table %d): want ErrEntryTooLarge, got %v", op.Op, total, r.c.TableSize, err)
			}
		default: // exactly the table size: stored or rejected, both fine
			if err == nil {
				r.model[k] = &kvModelEntry{value: val, ttl: op.TTL, ts: ts}
			} else if !errors.Is(err, storage.ErrEntryTooLarge) {
				return r.fail("too-large-not-rejected", "%s of an entry of exactly the table size: got %v", op.Op, err)
			}
		}
	case "del":
		k := op.K % nk
		if err := r.s.Delete(kvHKey(k)); err != nil {
			return r.fail("delete-error", "Delete: %v", err)
		}
		delete(r.model, k)
	case "ttl":
		k := op.K % nk
		e := entry.New()
		e.SetTTL(op.TTL)
		ts := int64(r.step + 1)
		e.SetTimestamp(ts)
		err := r.s.UpdateTTL(kvHKey(k), e)
		if m, ok := r.model[k]; ok {
			if err != nil {
				return r.fail("updatettl-error", "UpdateTTL on a present key: %v", err)
			}
			m.ttl, m.ts = op.TTL, ts
		} else if !errors.Is(err, storage.ErrKeyNotFound) {
			return r.fail("updatettl-absent", "UpdateTTL on an absent key: want ErrKeyNotFound, got %v", err)
		}
	case "compact1":
		if _, err := r.s.Compaction(); err != nil {
			return r.fail("compaction-error", "Compaction: %v", err)
		}
	case "compactall":
		if v := r.compactAll(); v != nil {
			return v
		}
	case "transferback":
		if v := r.transferBack(); v != nil {
			return v
		}
	case "transfer", "transferdup":
		if v := r.transfer(op.Op == "transferdup"); v != nil {
			return v
		}
	case "scan":
		return r.checkScan(op.N, op.M)
	case "scanmid":
		return r.checkScanMid(op.N, op.K)
	default:
		panic("unknown op " + op.Op)
	}
	if n := len(r.s.tables); n > r.everTab {
		r.everTab = n
	}
	return nil
}

// locate returns the index of the newest table holding key k, -1 if none.
func (r *kvRunner) locate(k int) int {
	for i := len(r.s.tables) - 1; i >= 0; i-- {
		if r.s.tables[i].Check(kvHKey(k)) {
			return i
		}
	}
	return -1
}

func (r *kvRunner) compactAll() *vcommon.Violation {
	st := r.s.Stats()
	bound := (st.Length/1000+2)*(st.NumTables+1) + 2
	// every drained table may allocate one more table to drain into
	bound *= 2
	for i := 0; i < bound; i++ {
		done, err := r.s.Compaction()
		if err != nil {
			return r.fail("compaction-error", "Compaction: %v", err)
		}
		if done {
			return nil
		}
	}
	return r.fail("compaction-not-done", "Compaction did not report completion within %d calls (tables=%d, length=%d)", bound, st.NumTables, st.Length)
}

// transfer moves every table into a fresh store the way fragment.Move and
// mergeFragments do (export, import with newer-timestamp-wins, drop).
func (r *kvRunner) transfer(dup bool) *vcommon.Violation {
	dstE, err := r.s.Fork(nil)
	if err != nil {
		return r.fail("fork-error", "Fork: %v", err)
	}
	return r.transferTo(dstE.(*KVStore), dup)
}

// transferBack moves everything to a fresh store and then back into the emptied source, which may still hold recycled
// tables: a member that handed a partition over and gets it back before its janitor removed the emptied fragment.
func (r *kvRunner) transferBack() *vcommon.Violation {
	orig := r.s
	if v := r.transfer(false); v != nil {
		return v
	}
	r.labels["transfer-back"] = true
	if v := r.transferTo(orig, false); v != nil {
		return v
	}
	return r.checkScan(3, "")
}

func (r *kvRunner) transferTo(dst *KVStore, dup bool) *vcommon.Violation {
	merge := func(hkey uint64, e storage.Entry) error {
		cur, err := dst.Get(hkey)
		if errors.Is(err, storage.ErrKeyNotFound) {
			return dst.Put(hkey, e)
		}
		if err != nil {
			return err
		}
		if cur.Timestamp() >= e.Timestamp() {
			return nil
		}
		return dst.Put(hkey, e)
	}
	moved := 0
	for guard := 0; guard < 100000; guard++ {
		it := r.s.TransferIterator()
		if !it.Next() {
			break
		}
		data, idx, err := it.Export()
		if err == io.EOF {
			break
		}
		if err != nil {
			return r.fail("export-error", "Export: %v", err)
		}
		var ierr error
		if e := dst.Import(data, func(h uint64, e storage.Entry) error {
			if err := merge(h, e); err != nil {
				ierr = err
				return err
			}
			return nil
		}); e != nil {
			return r.fail("import-error", "Import: %v", e)
		}
		if ierr != nil {
			return r.fail("import-error", "merge during Import: %v", ierr)
		}
		if dup {
			_ = dst.Import(data, merge)
		}
		if err := it.Drop(idx); err != nil {
			return r.fail("drop-error", "Drop: %v", err)
		}
		moved++
		// The source in the middle of a hand-over (the balancer ships one table per call and the fragment keeps
		// serving): a cursor scan yields exactly the keys it still holds, each once.
		held := map[string]bool{}
		r.s.Range(func(hkey uint64, e storage.Entry) bool {
			held[e.Key()] = true
			return true
		})
		seen, _, v := r.fullScan(3, "")
		if v != nil {
			return v
		}
		for k, n := range seen {
			if !held[k] {
				return r.fail("scan-after-drop", "after table %d was exported and dropped a scan of the source still yields %q, which it no longer holds (Range yields %d keys)", moved, k, len(held))
			}
			if n != 1 {
				return r.fail("scan-after-drop", "after table %d was exported and dropped a scan of the source yields %q %d times", moved, k, n)
			}
		}
		for k := range held {
			if seen[k] == 0 {
				return r.fail("scan-after-drop", "after table %d was exported and dropped a scan of the source misses %q, which Range still yields", moved, k)
			}
		}
		if n := r.s.Stats().Length; n != len(held) {
			return r.fail("scan-after-drop", "after table %d was exported and dropped the source reports Length %d, Range yields %d keys", moved, n, len(held))
		}
	}
	if moved >= 2 {
		r.labels["transfer>=2tables"] = true
	}
	if n := r.s.Stats().Length; n != 0 {
		return r.fail("transfer-leftover", "source still reports %d entries after every table was exported and dropped", n)
	}
	r.s = dst
	return nil
}

// fullScan drives the engine's cursor loop to completion.
func (r *kvRunner) fullScan(count int, match string) (map[string]int, int, *vcommon.Violation) {
	seen := map[string]int{}
	st := r.s.Stats()
	bound := (st.Length+st.NumTables+int(r.s.coefficient)+2)*3 + 10
	var cursor uint64
	calls := 0
	for {
		var err error
		f := func(e storage.Entry) bool { seen[e.Key()]++; return true }
		if match == "" {
			cursor, err = r.s.Scan(cursor, count, f)
		} else {
			cursor, err = r.s.ScanRegexMatch(cursor, match, count, f)
		}
		calls++
		if err != nil {
			return nil, calls, r.fail("scan-error", "Scan(count=%d, match=%q): %v", count, match, err)
		}
		if cursor == 0 {
			return seen, calls, nil
		}
		if calls > bound {
			return nil, calls, r.fail("scan-no-termination", "Scan(count=%d, match=%q) did not finish within %d calls", count, match, bound)
		}
	}
}

func (r *kvRunner) checkScan(count int, match string) *vcommon.Violation {
	if count <= 0 {
		count = 10
	}
	seen, _, v := r.fullScan(count, match)
	if v != nil {
		return v
	}
	if count < 1000 || match != "" {
		if holes(r.s) || len(r.s.tablesByCoefficient) < len(r.s.tables) {
			r.labels["scan-over-holes-or-recycled"] = true
		}
		if count == 1 && len(r.model) >= 2 {
			r.labels["scan-count1"] = true
		}
		if match != "" && len(seen) < len(r.model) {
			r.labels["scan-match-filters"] = true
		}
	}
	var re interface{ MatchString(string) bool }
	if match != "" {
		re = mustRegexp(match)
	}
	for k, m := range r.model {
		_ = m
		key := r.c.Keys[k]
		want := re == nil || re.MatchString(key)
		if want && seen[key] == 0 {
			return r.fail("scan-missing", "full scan (count=%d, match=%q) did not yield present key %q (tables=%s)", count, match, key, r.layout())
		}
		if !want && seen[key] != 0 {
			return r.fail("scan-match", "scan with match=%q yielded non-matching key %q", match, key)
		}
		if seen[key] > 1 {
			r.labels["scan-duplicate"] = true
		}
	}
	present := map[string]bool{}
	for k := range r.model {
		present[r.c.Keys[k]] = true
	}
	for key := range seen {
		if !present[key] {
			return r.fail("scan-ghost", "full scan (count=%d, match=%q) yielded key %q which is not present (tables=%s)", count, match, key, r.layout())
		}
	}
	return nil
}

// checkScanMid: a paged scan during which compaction runs to completion after a drawn number of pages. Compaction
// does not change the contents, so every present key was present during the whole iteration and must be yielded at
// least once (more than once is allowed here); nothing that is not present may be yielded.
func (r *kvRunner) checkScanMid(count, after int) *vcommon.Violation {
	if count <= 0 {
		count = 2
	}
	seen := map[string]int{}
	st := r.s.Stats()
	bound := (st.Length+st.NumTables+int(r.s.coefficient)+4)*8 + 40
	var cursor uint64
	calls, compacted := 0, false
	before := r.layout()
	for {
		var err error
		cursor, err = r.s.Scan(cursor, count, func(e storage.Entry) bool { seen[e.Key()]++; return true })
		calls++
		if err != nil {
			return r.fail("scan-error", "Scan(count=%d) with compaction between pages: %v", count, err)
		}
		if cursor == 0 {
			break
		}
		if !compacted && calls > after {
			compacted = true
			tables := len(r.s.tables)
			if v := r.compactAll(); v != nil {
				return v
			}
			if len(r.s.tables) != tables || r.layout() != before {
				r.labels["scan-compaction-between-pages"] = true
			}
		}
		if calls > bound {
			return r.fail("scan-no-termination", "Scan(count=%d) with compaction between pages did not finish within %d calls", count, bound)
		}
	}
	present := map[string]bool{}
	for k := range r.model {
		key := r.c.Keys[k]
		present[key] = true
		if seen[key] == 0 {
			return r.fail("scan-missing-during-compaction", "a scan (count=%d) during which compaction ran after page %d did not yield present key %q (tables before %s, after %s)", count, after+1, key, before, r.layout())
		}
	}
	for key := range seen {
		if !present[key] {
			return r.fail("scan-ghost", "a scan (count=%d) with compaction between pages yielded key %q which is not present", count, key)
		}
	}
	return nil
}

func (r *kvRunner) layout() string {
	s := ""
	for i, t := range r.s.tables {
		st := t.Stats()
		s += fmt.Sprintf("[%d cf=%d state=%d len=%d inuse=%d garb=%d]", i, t.Coefficient(), t.State(), st.Length, st.Inuse, st.Garbage)
	}
	return s
}

// checkAll compares every observable of the engine with the model.
func (r *kvRunner) checkAll() *vcommon.Violation {
	for k, key := range r.c.Keys {
		h := kvHKey(k)
		m, present := r.model[k]
		e, err := r.s.Get(h)
		if present {
			if err != nil {
				return r.fail("lost", "Get(%q): %v, model has it", key, err)
			}
			if string(e.Value()) != string(m.value) || e.Key() != key || e.TTL() != m.ttl || e.Timestamp() != m.ts {
				return r.fail("stale", "Get(%q) = (key %q, %d bytes, ttl %d, ts %d), model (%d bytes, ttl %d, ts %d) tables=%s",
					key, e.Key(), len(e.Value()), e.TTL(), e.Timestamp(), len(m.value), m.ttl, m.ts, r.layout())
			}
			raw, err := r.s.GetRaw(h)
			if err != nil {
				return r.fail("lost", "GetRaw(%q): %v", key, err)
			}
			d := entry.New()
			d.Decode(raw)
			if string(d.Value()) != string(m.value) || d.Key() != key || d.TTL() != m.ttl || d.Timestamp() != m.ts {
				return r.fail("stale", "GetRaw(%q) disagrees with the model", key)
			}
			if ttl, err := r.s.GetTTL(h); err != nil || ttl != m.ttl {
				return r.fail("stale", "GetTTL(%q) = %d, %v; model %d", key, ttl, err, m.ttl)
			}
			if gk, err := r.s.GetKey(h); err != nil || gk != key {
				return r.fail("stale", "GetKey(%q) = %q, %v", key, gk, err)
			}
			if _, err := r.s.GetLastAccess(h); err != nil {
				return r.fail("lost", "GetLastAccess(%q): %v", key, err)
			}
			if !r.s.Check(h) {
				return r.fail("lost", "Check(%q) = false, model has it", key)
			}
		} else {
			if !errors.Is(err, storage.ErrKeyNotFound) {
				return r.fail("resurrected", "Get(%q) = %v, %v; model says absent; tables=%s", key, e, err, r.layout())
			}
			if _, err := r.s.GetRaw(h); !errors.Is(err, storage.ErrKeyNotFound) {
				return r.fail("resurrected", "GetRaw(%q) err=%v; model says absent", key, err)
			}
			if _, err := r.s.GetTTL(h); !errors.Is(err, storage.ErrKeyNotFound) {
				return r.fail("resurrected", "GetTTL(%q) err=%v; model says absent", key, err)
			}
			if _, err := r.s.GetKey(h); !errors.Is(err, storage.ErrKeyNotFound) {
				return r.fail("resurrected", "GetKey(%q) err=%v; model says absent", key, err)
			}
			if r.s.Check(h) {
				return r.fail("resurrected", "Check(%q) = true; model says absent", key)
			}
		}
	}
	if n := r.s.Stats().Length; n != len(r.model) {
		return r.fail("length", "Stats().Length = %d, model has %d keys; tables=%s", n, len(r.model), r.layout())
	}
	visits := map[uint64]int{}
	var bad *vcommon.Violation
	r.s.Range(func(h uint64, e storage.Entry) bool {
		visits[h]++
		return true
	})
	hv := map[uint64]int{}
	r.s.RangeHKey(func(h uint64) bool { hv[h]++; return true })
	for k, key := range r.c.Keys {
		h := kvHKey(k)
		_, present := r.model[k]
		want := 0
		if present {
			want = 1
		}
		if visits[h] != want {
			bad = r.fail("range", "Range visited %q %d times, want %d; tables=%s", key, visits[h], want, r.layout())
		}
		if hv[h] != want {
			bad = r.fail("range", "RangeHKey visited %q %d times, want %d", key, hv[h], want)
		}
	}
	if bad != nil {
		return bad
	}
	if len(visits) > len(r.c.Keys) {
		return r.fail("range", "Range visited unknown hkeys")
	}
	return r.checkScan(1000, "")
}

// runKVCase executes a case; checkEvery=false checks only after the last step.
func runKVCase(c *kvCase, checkEvery bool) (*vcommon.Violation, map[string]bool) {
	r := &kvRunner{c: c, s: newKVStoreIdle(c.TableSize, c.IdleNs), model: map[int]*kvModelEntry{}, labels: map[string]bool{}}
	for i, op := range c.Ops {
		r.step = i
		// non-triviality bookkeeping before the op changes the layout
		switch op.Op {
		case "put", "putraw", "del", "ttl":
			k := op.K % len(c.Keys)
			if _, ok := r.model[k]; ok {
				if loc := r.locate(k); loc >= 0 && loc < len(r.s.tables)-1 {
					r.labels["older-table-"+op.Op] = true
					r.labels["nt"] = true
				}
			}
		case "compact1", "compactall":
			if n := len(r.s.tables); n > 0 && r.s.isCompactionOK(r.s.tables[n-1]) {
				r.labels["compact-head-table"] = true
				r.labels["nt"] = true
			}
			for _, t := range r.s.tables {
				if r.s.isCompactionOK(t) {
					r.labels["compaction-effective"] = true
				}
			}
		}
		if v := r.apply(op); v != nil {
			return v, r.labels
		}
		if r.labels["transfer>=2tables"] {
			r.labels["nt"] = true
		}
		if checkEvery || i == len(c.Ops)-1 {
			if v := r.checkAll(); v != nil {
				return v, r.labels
			}
		}
	}
	if r.everTab >= 2 {
		r.labels["multi-table"] = true
	}
	if len(r.s.tablesByCoefficient) < len(r.s.tables) || holes(r.s) {
		r.labels["holes-or-recycled"] = true
	}
	return nil, r.labels
}

func mustRegexp(expr string) *regexp.Regexp { return regexp.MustCompile(expr) }

func holes(s *KVStore) bool {
	var cfs []uint64
	for cf := range s.tablesByCoefficient {
		cfs = append(cfs, cf)
	}
	sort.Slice(cfs, func(i, j int) bool { return cfs[i] < cfs[j] })
	for i := 1; i < len(cfs); i++ {
		if cfs[i] != cfs[i-1]+1 {
			return true
		}
	}
	return len(cfs) > 0 && cfs[0] != 0
}

func labelList(m map[string]bool) []string {
	var out []string
	for l := range m {
		if l != "nt" {
			out = append(out, l)
		}
	}
	sort.Strings(out)
	return out
}

// ---- generators ------------------------------------------------------------

func genKVCase(t *rapid.T, maxOps int, withScan bool) *kvCase {
	ts := rapid.SampledFrom([]int{128, 160, 256, 512, 1024, 2048}).Draw(t, "tableSize")
	nk := rapid.IntRange(2, 6).Draw(t, "keys")
	c := &kvCase{TableSize: ts}
	if rapid.IntRange(0, 2).Draw(t, "idle") == 0 {
		c.IdleNs = 1 // recycled tables are freed by the next completed compaction
	}
	allKeys := []string{"a", "kb", "key-c", "p1", "xd", "a-long-key-name-e"}
	c.Keys = allKeys[:nk]
	c.Sizes = []int{rapid.IntRange(0, 8).Draw(t, "tiny"), ts/4 - 29, ts/2 - 29, ts/3 - 10}
	nops := rapid.IntRange(1, maxOps).Draw(t, "nops")
	kinds := []string{"put", "put", "put", "put", "putraw", "putraw", "del", "del", "ttl", "compact1", "compactall", "transfer", "transferdup", "transferback"}
	if withScan {
		kinds = append(kinds, "scan", "scan", "scan", "scanmid", "scanmid")
	}
	for i := 0; i < nops; i++ {
		op := kvOp{Op: rapid.SampledFrom(kinds).Draw(t, "op")}
		switch op.Op {
		case "put", "putraw":
			op.K = rapid.IntRange(0, nk-1).Draw(t, "k")
			op.S = rapid.SampledFrom([]int{0, 0, 1, 1, 1, 2, 2, 3, 3, -1, -2, -3}).Draw(t, "s")
			op.TTL = rapid.SampledFrom([]int64{0, 0, 5, 1 << 40}).Draw(t, "ttl")
		case "del":
			op.K = rapid.IntRange(0, nk-1).Draw(t, "k")
		case "ttl":
			op.K = rapid.IntRange(0, nk-1).Draw(t, "k")
			op.TTL = rapid.SampledFrom([]int64{0, 7, 1 << 41}).Draw(t, "ttl")
		case "scan":
			op.N = rapid.SampledFrom([]int{1, 2, 3, 10, 1000}).Draw(t, "count")
			op.M = rapid.SampledFrom([]string{"", "", "^k", "d$", "a|b", ".", "^zzz$", "-"}).Draw(t, "match")
		case "scanmid":
			op.N = rapid.SampledFrom([]int{1, 1, 2}).Draw(t, "count")
			op.K = rapid.IntRange(0, 3).Draw(t, "compactAfterPage")
		}
		c.Ops = append(c.Ops, op)
	}
	return c
}

// kvProperty is the shared rapid driver of the engine parts.
func kvProperty(t *testing.T, prop, part string, maxOps int, withScan bool, nontrivial func(map[string]bool) bool, accept func(*vcommon.Violation) bool) {
	col := vcommon.NewCollector(prop, part)
	t.Cleanup(col.Flush)
	rapid.Check(t, func(rt *rapid.T) {
		c := genKVCase(rt, maxOps, withScan)
		v, labels := runKVCase(c, true)
		col.Record(vcommon.MustJSON(c), nontrivial(labels), labelList(labels)...)
		if v != nil && accept(v) {
			v.Property, v.Part = prop, part
			path := vcommon.SaveViolation(v)
			if v.Class == "put-never-returns" {
				fmt.Printf("VERIF-VIOLATION %s %s\n", path, v.Message)
				col.Flush()
				os.Exit(3)
			}
			rt.Fatalf("%s", v.Message)
		}
	})
}

func replayKV(t *testing.T, prop string) bool {
	p := vcommon.Env()
	if p.Replay == "" {
		return false
	}
	v, err := vcommon.LoadViolation(p.Replay)
	if err != nil {
		t.Fatalf("cannot load replay file: %v", err)
	}
	c := &kvCase{}
	if err := json.Unmarshal(v.Case, c); err != nil {
		t.Fatalf("cannot decode case: %v", err)
	}
	got, _ := runKVCase(c, true)
	if got != nil {
		got.Property, got.Part = prop, v.Part
		path := vcommon.SaveViolation(got)
		fmt.Printf("VERIF-VIOLATION %s %s\n", path, got.Message)
		t.Fatalf("replay still fails: %s", got.Message)
	}
	fmt.Printf("VERIF-REPLAY-OK %s\n", p.Replay)
	return true
}
