package kvstore

// Native fuzz target (thorough tier): an operation tape for the engine, with the
// reference-map oracle inside the target. The state is rebuilt on every iteration.

import (
	"fmt"
	"testing"

	"github.com/olric-data/olric/internal/zzverif/vcommon"
)

func decodeKVTape(data []byte) *kvCase {
	if len(data) < 3 {
		return nil
	}
	sizes := []int{128, 160, 256, 512}
	ts := sizes[int(data[0])%len(sizes)]
	nk := 2 + int(data[1])%4
	c := &kvCase{TableSize: ts}
	c.Keys = []string{"a", "kb", "key-c", "p1", "xd", "a-long-key-name-e"}[:nk]
	c.Sizes = []int{int(data[2]) % 9, ts/4 - 29, ts/2 - 29, ts/3 - 10}
	if data[2]&0x80 != 0 {
		c.IdleNs = 1
	}
	kinds := []string{"put", "put", "putraw", "del", "ttl", "compact1", "compactall", "transfer", "transferdup", "scan", "put", "del"}
	rest := data[3:]
	for i := 0; i+1 < len(rest) && len(c.Ops) < 200; i += 2 {
		a, b := rest[i], rest[i+1]
		op := kvOp{Op: kinds[int(a)%len(kinds)]}
		op.K = int(b) % nk
		switch op.Op {
		case "put", "putraw":
			op.S = []int{0, 1, 1, 2, 3, -1, -2, -3}[int(b>>3)%8]
			op.TTL = int64(b>>6) * 5
		case "ttl":
			op.TTL = int64(b >> 4)
		case "scan":
			op.N = []int{1, 2, 3, 10, 1000}[int(b)%5]
			op.M = []string{"", "^k", "d$", "a|b", ".", "^zzz$"}[int(b>>3)%6]
		}
		c.Ops = append(c.Ops, op)
	}
	return c
}

func FuzzVerifC11(f *testing.F) {
	f.Add([]byte{0, 0, 5, 0, 0, 0, 8, 3, 0, 5, 0})
	f.Add([]byte{1, 1, 130, 0, 16, 2, 1, 3, 0, 6, 0, 7, 0, 9, 12})
	f.Add([]byte{0, 2, 3, 0, 8, 0, 9, 0, 40, 5, 0, 0, 8, 9, 0})
	f.Add([]byte{2, 3, 200, 2, 8, 2, 9, 3, 1, 6, 0, 8, 0, 0, 24, 9, 3})
	f.Fuzz(func(t *testing.T, data []byte) {
		c := decodeKVTape(data)
		if c == nil || len(c.Ops) == 0 {
			return
		}
		v := vcommon.Guard("C11", "fuzz", c, func() *vcommon.Violation {
			vv, _ := runKVCase(c, true)
			return vv
		})
		if v != nil {
			v.Property, v.Part = "C11", "rapid" // replayed through the rapid part (same case format)
			path := vcommon.SaveViolation(v)
			fmt.Printf("VERIF-VIOLATION %s %s\n", path, v.Message)
			t.Fatalf("%s", v.Message)
		}
	})
}
