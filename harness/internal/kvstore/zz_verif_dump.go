package kvstore

import (
	"fmt"
	"sort"
)

// VerifDump describes the tables of the store: position, coefficient, state, number of keys; and the coefficient index.
func (k *KVStore) VerifDump() string {
	out := "tables:"
	for i, t := range k.tables {
		s := t.Stats()
		out += fmt.Sprintf(" #%d{cf=%d state=%d keys=%d inuse=%d}", i, t.Coefficient(), t.State(), s.Length, s.Inuse)
	}
	var cfs []int
	for cf, t := range k.tablesByCoefficient {
		pos := -1
		for i, x := range k.tables {
			if x == t {
				pos = i
			}
		}
		cfs = append(cfs, int(cf)*1000+pos+1)
	}
	sort.Ints(cfs)
	out += " index(cf*1000+pos+1):" + fmt.Sprint(cfs) + fmt.Sprintf(" next-cf=%d table-size=%d", k.coefficient, k.tableSize)
	return out
}
