package server

// Accessors for the verification harness (overlay only, adds code only).

import (
	"sort"
	"time"

	"github.com/tidwall/redcon"
)

// VerifServeRESP hands a command to the member's real command multiplexer, the
// way the redcon server does for a command read from a connection.
func (s *Server) VerifServeRESP(conn redcon.Conn, cmd redcon.Command) {
	s.mux.ServeRESP(conn, cmd)
}

// VerifCommands lists the registered command names.
func (s *Server) VerifCommands() []string {
	var out []string
	for name := range s.mux.handlers {
		out = append(out, name)
	}
	sort.Strings(out)
	return out
}

// VerifCloseListener makes the member unreachable over RESP while everything
// else (membership gossip, its own outgoing client, its services) keeps running:
// the listener and every accepted connection are closed.
func (s *Server) VerifCloseListener() error {
	if s.server == nil {
		return nil
	}
	err := s.server.Close()
	// redcon closes the accepted connections from its serve loop after the listener
	// failed: wait until ListenAndServe has returned
	select {
	case <-s.stopped:
	case <-time.After(5 * time.Second):
	}
	return err
}
