package server

// Accessors for the verification harness (overlay only, adds code only).

import (
	"sort"

	"github.com/tidwall/redcon"
)

// VerifServeRESP hands a command to the member's real command multiplexer, the
// way the redcon server does for a command read from a connection.
func (s *Server) VerifServeRESP(conn redcon.Conn, cmd redcon.Command) {
	s.mux.ServeRESP(conn, cmd)
}

// VerifCommands lists the registered command names.
func (s *Server) VerifCommands() []string {
	var out []string
	for name := range s.mux.handlers {
		out = append(out, name)
	}
	sort.Strings(out)
	return out
}

// VerifCloseListener closes the RESP listener while everything else keeps
// running: the member stays in the member list but cannot be reached.
func (s *Server) VerifCloseListener() error {
	if s.listener == nil {
		return nil
	}
	return s.listener.Close()
}
