package discovery

// Accessor for the verification harness (overlay only, adds code only).

// VerifKill stops the gossip layer abruptly: no leave message is broadcast, the
// other members have to detect the failure themselves.
func (d *Discovery) VerifKill() {
	d.cancel()
	if d.memberlist != nil {
		_ = d.memberlist.Shutdown()
	}
}
