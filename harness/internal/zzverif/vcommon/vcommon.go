// Package vcommon is shared by every injected harness file. It lives only in
// /verif and reaches the build through the overlay (directory
// internal/zzverif/vcommon does not exist in the repository).
//
// It provides: run parameters from VERIF_* environment variables, the evidence
// collector, and reading/writing of case files (violations, replays).
package vcommon

import (
	"crypto/sha1"
	"encoding/binary"
	"encoding/json"
	"fmt"
	"os"
	"path/filepath"
	"runtime"
	"sort"
	"strconv"
	"strings"
	"sync"
	"time"
)

// Params are the run parameters handed over by the driver.
type Params struct {
	Seed   uint64
	Tier   string // quick | thorough
	Shard  int
	Shards int
	Out    string // directory for evidence shards and violation files
	Replay string // path of a case file to re-execute (replay mode)
	Scale  float64
}

func envInt(name string, def int) int {
	if v := os.Getenv(name); v != "" {
		if n, err := strconv.Atoi(v); err == nil {
			return n
		}
	}
	return def
}

// Env reads the VERIF_* variables.
func Env() Params {
	p := Params{
		Tier:   os.Getenv("VERIF_TIER"),
		Shard:  envInt("VERIF_SHARD", 0),
		Shards: envInt("VERIF_SHARDS", 1),
		Out:    os.Getenv("VERIF_OUT"),
		Replay: os.Getenv("VERIF_REPLAY"),
		Scale:  1,
	}
	if p.Tier == "" {
		p.Tier = "quick"
	}
	if v := os.Getenv("VERIF_SEED"); v != "" {
		if n, err := strconv.ParseUint(v, 10, 64); err == nil {
			p.Seed = n
		}
	}
	if v := os.Getenv("VERIF_SCALE"); v != "" {
		if f, err := strconv.ParseFloat(v, 64); err == nil && f > 0 {
			p.Scale = f
		}
	}
	if p.Out == "" {
		p.Out = os.TempDir()
	}
	if p.Shards < 1 {
		p.Shards = 1
	}
	return p
}

// Thorough reports whether the thorough tier is running.
func (p Params) Thorough() bool { return p.Tier == "thorough" }

// N picks the quick or the thorough volume and applies VERIF_SCALE.
func (p Params) N(quick, thorough int) int {
	n := quick
	if p.Thorough() {
		n = thorough
	}
	n = int(float64(n) * p.Scale)
	if n < 1 {
		n = 1
	}
	return n
}

// Violation describes one failed case.
type Violation struct {
	Property string          `json:"property"`
	Part     string          `json:"part"`
	Message  string          `json:"message"`
	Class    string          `json:"class,omitempty"` // root-cause class, used to match known findings
	Case     json.RawMessage `json:"case"`
	History  json.RawMessage `json:"history,omitempty"`
}

func (v *Violation) Error() string { return v.Message }

// Hash64 is the case hash used for the distinct count.
func Hash64(b []byte) uint64 {
	s := sha1.Sum(b)
	return binary.BigEndian.Uint64(s[:8])
}

// Collector gathers what one shard of one part of a check covered.
type Collector struct {
	mu        sync.Mutex
	Property  string
	Part      string
	p         Params
	start     time.Time
	evals     int64
	nontriv   map[uint64]struct{}
	nontrivN  int64 // distinct by construction (exhaustive enumerations)
	labels    map[string]int64
	first     json.RawMessage
	last      json.RawMessage
	best      []sample // the three non-trivial cases with the smallest hash
	inconcl   int64
	exclKnown int64
	exhaust   bool
	notes     []string
}

type sample struct {
	h uint64
	c json.RawMessage
}

// NewCollector creates the collector for (property, part) in this shard.
func NewCollector(property, part string) *Collector {
	return &Collector{
		Property: property,
		Part:     part,
		p:        Env(),
		start:    time.Now(),
		nontriv:  make(map[uint64]struct{}),
		labels:   make(map[string]int64),
	}
}

// Record counts one executed case. caseJSON identifies the case (canonical
// JSON); nontrivial is the verdict of the property's stated rule.
func (c *Collector) Record(caseJSON []byte, nontrivial bool, labels ...string) {
	c.mu.Lock()
	defer c.mu.Unlock()
	c.evals++
	for _, l := range labels {
		c.labels[l]++
	}
	// diagnosis only: VERIF_DUMP_CASES=<file> appends every executed case, one JSON document per line
	if p := os.Getenv("VERIF_DUMP_CASES"); p != "" {
		if f, err := os.OpenFile(p, os.O_APPEND|os.O_CREATE|os.O_WRONLY, 0o644); err == nil {
			f.Write(append(append([]byte(nil), caseJSON...), '\n'))
			f.Close()
		}
	}
	if c.first == nil {
		c.first = append(json.RawMessage(nil), caseJSON...)
	}
	if !nontrivial {
		return
	}
	h := Hash64(caseJSON)
	if _, ok := c.nontriv[h]; ok {
		return
	}
	c.nontriv[h] = struct{}{}
	c.last = append(c.last[:0], caseJSON...)
	if len(c.best) < 3 || h < c.best[len(c.best)-1].h {
		c.best = append(c.best, sample{h, append(json.RawMessage(nil), caseJSON...)})
		sort.Slice(c.best, func(i, j int) bool { return c.best[i].h < c.best[j].h })
		if len(c.best) > 3 {
			c.best = c.best[:3]
		}
	}
}

// RecordEnumerated counts a case of an exhaustive enumeration: cases are
// distinct by construction, so no hash is kept. sampleJSON may be nil.
func (c *Collector) RecordEnumerated(nontrivial bool, sampleJSON func() []byte) {
	c.mu.Lock()
	defer c.mu.Unlock()
	c.evals++
	if nontrivial {
		c.nontrivN++
		// keep a sparse set of samples: the 1st, 1000th, 1000000th ...
		n := c.nontrivN
		if sampleJSON != nil && (n == 1 || n == 1000 || n == 100000 || n == 5000000) {
			c.best = append(c.best, sample{uint64(n), sampleJSON()})
		}
	}
}

// Label adds n to a class counter.
func (c *Collector) Label(l string, n int64) {
	c.mu.Lock()
	c.labels[l] += n
	c.mu.Unlock()
}

// Inconclusive counts a case whose outcome could not be decided (time-outs).
func (c *Collector) Inconclusive() { c.mu.Lock(); c.inconcl++; c.mu.Unlock() }

// ExcludedKnown counts a case steered away from an open known finding.
func (c *Collector) ExcludedKnown() { c.mu.Lock(); c.exclKnown++; c.mu.Unlock() }

// SetExhaustive marks the part as a complete enumeration of a finite space.
func (c *Collector) SetExhaustive() { c.mu.Lock(); c.exhaust = true; c.mu.Unlock() }

// Note adds free text to the evidence.
func (c *Collector) Note(s string) { c.mu.Lock(); c.notes = append(c.notes, s); c.mu.Unlock() }

type shardEvidence struct {
	Property      string            `json:"property"`
	Part          string            `json:"part"`
	Shard         int               `json:"shard"`
	Evaluations   int64             `json:"evaluations"`
	Hashes        []uint64          `json:"hashes"`
	NontrivialN   int64             `json:"nontrivial_enumerated"`
	Labels        map[string]int64  `json:"labels"`
	Samples       []json.RawMessage `json:"samples"`
	Inconclusive  int64             `json:"inconclusive"`
	ExcludedKnown int64             `json:"excluded_known"`
	Exhaustive    bool              `json:"exhaustive"`
	Notes         []string          `json:"notes,omitempty"`
	WallS         float64           `json:"wall_s"`
}

// Flush writes the shard's evidence file. Call it from t.Cleanup.
func (c *Collector) Flush() {
	c.mu.Lock()
	defer c.mu.Unlock()
	ev := shardEvidence{
		Property: c.Property, Part: c.Part, Shard: c.p.Shard,
		Evaluations: c.evals, NontrivialN: c.nontrivN, Labels: c.labels,
		Inconclusive: c.inconcl, ExcludedKnown: c.exclKnown, Exhaustive: c.exhaust,
		Notes: c.notes, WallS: time.Since(c.start).Seconds(),
	}
	for h := range c.nontriv {
		ev.Hashes = append(ev.Hashes, h)
	}
	sort.Slice(ev.Hashes, func(i, j int) bool { return ev.Hashes[i] < ev.Hashes[j] })
	if c.first != nil {
		ev.Samples = append(ev.Samples, c.first)
	}
	for _, s := range c.best {
		ev.Samples = append(ev.Samples, s.c)
	}
	if c.last != nil {
		ev.Samples = append(ev.Samples, append(json.RawMessage(nil), c.last...))
	}
	b, err := json.Marshal(ev)
	if err != nil {
		fmt.Fprintf(os.Stderr, "vcommon: cannot encode evidence: %v\n", err)
		return
	}
	name := filepath.Join(c.p.Out, fmt.Sprintf("ev-%s-%s-%d.json", c.Property, c.Part, c.p.Shard))
	if err := os.WriteFile(name, b, 0o644); err != nil {
		fmt.Fprintf(os.Stderr, "vcommon: cannot write evidence: %v\n", err)
	}
}

// SaveViolation writes the violation next to the evidence. rapid re-runs the
// minimal case last, so the file left on disk holds the shrunk case. The
// violation's root-cause class is part of the file name, so one file per class
// survives when a part reports several.
func SaveViolation(v *Violation) string {
	p := Env()
	cls := v.Class
	if cls == "" {
		cls = "v"
	}
	name := filepath.Join(p.Out, fmt.Sprintf("viol-%s-%s-%d-%s.json", v.Property, v.Part, p.Shard, sanitize(cls)))
	b, _ := json.MarshalIndent(v, "", " ")
	_ = os.WriteFile(name, b, 0o644)
	return name
}

func sanitize(s string) string {
	out := make([]byte, 0, len(s))
	for i := 0; i < len(s) && i < 60; i++ {
		ch := s[i]
		if (ch >= 'a' && ch <= 'z') || (ch >= 'A' && ch <= 'Z') || (ch >= '0' && ch <= '9') || ch == '_' || ch == '.' {
			out = append(out, ch)
		} else {
			out = append(out, '_')
		}
	}
	return string(out)
}

// LoadViolation reads a violation/replay file.
func LoadViolation(path string) (*Violation, error) {
	b, err := os.ReadFile(path)
	if err != nil {
		return nil, err
	}
	v := &Violation{}
	if err := json.Unmarshal(b, v); err != nil {
		return nil, err
	}
	return v, nil
}

// MustJSON encodes v; struct field order makes it canonical.
func MustJSON(v interface{}) []byte {
	b, err := json.Marshal(v)
	if err != nil {
		panic(err)
	}
	return b
}

// NewViolation builds a violation for a case.
func NewViolation(property, part, class string, c interface{}, format string, args ...interface{}) *Violation {
	return &Violation{Property: property, Part: part, Class: class, Message: fmt.Sprintf(format, args...), Case: MustJSON(c)}
}

// Guard runs f and converts a panic into a violation whose class names the
// first stack frame inside the repository (the root cause, not the input).
func Guard(property, part string, c interface{}, f func() *Violation) (v *Violation) {
	defer func() {
		if r := recover(); r != nil {
			frame := repoFrame()
			v = NewViolation(property, part, "panic:"+frame, c, "panic: %v at %s", r, frame)
		}
	}()
	return f()
}

func repoFrame() string {
	pcs := make([]uintptr, 64)
	n := runtime.Callers(3, pcs)
	frames := runtime.CallersFrames(pcs[:n])
	for {
		fr, more := frames.Next()
		if strings.Contains(fr.Function, "olric-data/olric") && !strings.Contains(fr.File, "zz_verif") && !strings.Contains(fr.File, "zzverif") {
			fn := fr.Function
			if i := strings.LastIndex(fn, "/"); i >= 0 {
				fn = fn[i+1:]
			}
			return fn
		}
		if !more {
			break
		}
	}
	return "unknown"
}

// Known reports whether a root-cause class is listed as an open known finding
// (VERIF_KNOWN is filled by the driver from KNOWN_FINDINGS.txt).
func Known(class string) bool {
	for _, k := range strings.Split(os.Getenv("VERIF_KNOWN"), ",") {
		if k != "" && k == class {
			return true
		}
	}
	return false
}
