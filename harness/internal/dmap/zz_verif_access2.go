package dmap

// More accessors for the verification harness (overlay only, adds code only).

import (
	"github.com/olric-data/olric/internal/cluster/partitions"
)

// VerifPutEntry writes an entry with a chosen timestamp directly into this
// member's primary or backup fragment of the key's partition, the way a copy
// left behind by a failover, a healed partition or a hand-over would sit there.
func (s *Service) VerifPutEntry(name, key string, kind partitions.Kind, value []byte, ttl, timestamp int64) error {
	dm, err := s.getOrCreateDMap(name)
	if err != nil {
		return err
	}
	hkey := partitions.HKey(name, key)
	part := dm.getPartitionByHKey(hkey, kind)
	f, err := dm.loadOrCreateFragment(part)
	if err != nil {
		return err
	}
	f.Lock()
	defer f.Unlock()
	e := f.storage.NewEntry()
	e.SetKey(key)
	e.SetValue(value)
	e.SetTTL(ttl)
	e.SetTimestamp(timestamp)
	return f.storage.Put(hkey, e)
}

// VerifOwnedPartitions returns the number of partitions this member owns, as the eviction code sees it.
func (s *Service) VerifOwnedPartitions() uint64 { return s.rt.OwnedPartitionCount() }
