package dmap

// White-box accessors for the verification harness. This file is never part of
// the repository: it is compiled into harness binaries through the build
// overlay only, and it only adds code.

import (
	"github.com/olric-data/olric/internal/cluster/partitions"
	"github.com/olric-data/olric/pkg/storage"
)

func (s *Service) verifPart(name, key string, kind partitions.Kind) (*partitions.Partition, uint64) {
	hkey := partitions.HKey(name, key)
	if kind == partitions.PRIMARY {
		return s.primary.PartitionByHKey(hkey), hkey
	}
	return s.backup.PartitionByHKey(hkey), hkey
}

// VerifRaw returns the encoded entry stored for the key in this member's
// primary or backup fragment.
func (s *Service) VerifRaw(name, key string, kind partitions.Kind) ([]byte, bool) {
	part, hkey := s.verifPart(name, key, kind)
	tmp, ok := part.Map().Load(s.fragmentName(name))
	if !ok {
		return nil, false
	}
	f := tmp.(*fragment)
	f.RLock()
	defer f.RUnlock()
	raw, err := f.storage.GetRaw(hkey)
	if err != nil {
		return nil, false
	}
	return raw, true
}

// VerifCheck reports whether the key is stored, without refreshing its last-access stamp.
func (s *Service) VerifCheck(name, key string, kind partitions.Kind) bool {
	part, hkey := s.verifPart(name, key, kind)
	tmp, ok := part.Map().Load(s.fragmentName(name))
	if !ok {
		return false
	}
	f := tmp.(*fragment)
	f.RLock()
	defer f.RUnlock()
	return f.storage.Check(hkey)
}

// VerifEvict runs one eviction scan on the primary fragment that holds the key.
func (s *Service) VerifEvict(name, key string) {
	part, _ := s.verifPart(name, key, partitions.PRIMARY)
	tmp, ok := part.Map().Load(s.fragmentName(name))
	if !ok {
		return
	}
	// evictKeys hands over the fragment's name in the partition map ("dmap.<name>")
	s.scanFragmentForEviction(part.ID(), s.fragmentName(name), tmp.(*fragment))
}

// VerifFragmentStats returns the storage statistics of one fragment.
func (s *Service) VerifFragmentStats(name string, partID uint64, kind partitions.Kind) (storage.Stats, bool) {
	var part *partitions.Partition
	if kind == partitions.PRIMARY {
		part = s.primary.PartitionByID(partID)
	} else {
		part = s.backup.PartitionByID(partID)
	}
	tmp, ok := part.Map().Load(s.fragmentName(name))
	if !ok {
		return storage.Stats{}, false
	}
	return tmp.(*fragment).Stats(), true
}

// VerifKeys lists the keys stored in one fragment.
func (s *Service) VerifKeys(name string, partID uint64, kind partitions.Kind) []string {
	var part *partitions.Partition
	if kind == partitions.PRIMARY {
		part = s.primary.PartitionByID(partID)
	} else {
		part = s.backup.PartitionByID(partID)
	}
	tmp, ok := part.Map().Load(s.fragmentName(name))
	if !ok {
		return nil
	}
	f := tmp.(*fragment)
	f.RLock()
	defer f.RUnlock()
	var keys []string
	f.storage.RangeHKey(func(hkey uint64) bool {
		if k, err := f.storage.GetKey(hkey); err == nil {
			keys = append(keys, k)
		}
		return true
	})
	return keys
}

// VerifCompact runs compaction to completion on one fragment; it returns the
// number of calls, or -1 if it did not finish within the bound.
func (s *Service) VerifCompact(name string, partID uint64, kind partitions.Kind, bound int) int {
	var part *partitions.Partition
	if kind == partitions.PRIMARY {
		part = s.primary.PartitionByID(partID)
	} else {
		part = s.backup.PartitionByID(partID)
	}
	tmp, ok := part.Map().Load(s.fragmentName(name))
	if !ok {
		return 0
	}
	f := tmp.(*fragment)
	for i := 1; i <= bound; i++ {
		f.Lock()
		done, err := f.Compaction()
		f.Unlock()
		if err != nil || done {
			return i
		}
	}
	return -1
}

// VerifDoCompaction runs the compaction worker's own routine for one partition
// (primary and backup fragments of every DMap) to completion.
func (s *Service) VerifDoCompaction(partID uint64) {
	s.doCompaction(partID)
}

// VerifTableStats describes the storage of one fragment.
type VerifTableStats struct {
	Allocated, Inuse, Garbage, Length, NumTables int
}

// VerifResetDMaps wipes every DMap of this member locally (primary and backup
// fragments), so that no earlier command can make a later one wait legitimately.
func (s *Service) VerifResetDMaps() {
	s.RLock()
	var names []string
	for name := range s.dmaps {
		names = append(names, name)
	}
	s.RUnlock()
	for _, name := range names {
		_ = s.destroyLocalDMap(name)
	}
}

// VerifJanitor runs one pass of the empty-fragment janitor.
func (s *Service) VerifJanitor() { s.deleteEmptyFragments() }
