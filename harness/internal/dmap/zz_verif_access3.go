package dmap

import "github.com/olric-data/olric/internal/cluster/partitions"

// VerifDeleteLocal removes the key from this member's own primary or backup fragment only,
// leaving every other copy in place - the state a failover leaves behind (the new primary
// owner is empty, the backup owners still hold the entry).
func (s *Service) VerifDeleteLocal(name, key string, kind partitions.Kind) {
	part, hkey := s.verifPart(name, key, kind)
	tmp, ok := part.Map().Load(s.fragmentName(name))
	if !ok {
		return
	}
	f := tmp.(*fragment)
	f.Lock()
	defer f.Unlock()
	_ = f.storage.Delete(hkey)
}
