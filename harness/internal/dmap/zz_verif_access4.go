package dmap

import "github.com/olric-data/olric/internal/cluster/partitions"

// VerifDumpStorage describes the tables of one fragment (diagnostics).
func (s *Service) VerifDumpStorage(name string, partID uint64, kind partitions.Kind) string {
	part := s.primary.PartitionByID(partID)
	if kind == partitions.BACKUP {
		part = s.backup.PartitionByID(partID)
	}
	tmp, ok := part.Map().Load(s.fragmentName(name))
	if !ok {
		return "no fragment"
	}
	f := tmp.(*fragment)
	f.Lock()
	defer f.Unlock()
	if d, ok := f.storage.(interface{ VerifDump() string }); ok {
		return d.VerifDump()
	}
	return "no dump"
}
