package pubsub

// Accessor for the verification harness (overlay only, adds code only).

// VerifConnCount returns the number of connections this member currently
// tracks in pub/sub mode.
func (s *Service) VerifConnCount() int {
	s.pubsub.mu.RLock()
	defer s.pubsub.mu.RUnlock()
	return len(s.pubsub.conns)
}
