package resp

// C17 (codec level): every supported value type survives Encode -> Scan.

import (
	"bytes"
	"fmt"
	"math"
	"testing"
	"time"

	"github.com/olric-data/olric/internal/zzverif/vcommon"
	"pgregory.net/rapid"
)

type c17Blob struct{ B []byte }

func (b c17Blob) MarshalBinary() ([]byte, error) { return append([]byte{0xfe}, b.B...), nil }
func (b *c17Blob) UnmarshalBinary(p []byte) error {
	if len(p) == 0 || p[0] != 0xfe {
		return fmt.Errorf("bad blob")
	}
	b.B = append([]byte(nil), p[1:]...)
	return nil
}

type c17Codec struct {
	Type string `json:"type"`
	Repr string `json:"repr"`
}

func genBytes(t *rapid.T) []byte {
	switch rapid.IntRange(0, 5).Draw(t, "shape") {
	case 0:
		return []byte{}
	case 1:
		return []byte("\r\n$-1\r\n*3\r\n")
	case 2:
		return rapid.SliceOfN(rapid.Byte(), 0, 64).Draw(t, "bytes")
	case 3:
		return bytes.Repeat([]byte{rapid.Byte().Draw(t, "b")}, rapid.IntRange(1000, 70000).Draw(t, "n"))
	case 4:
		return []byte{0, 0xff, 0x80, '\n', '\r', 0}
	default:
		return []byte(rapid.String().Draw(t, "s"))
	}
}

// RoundTrip encodes v and scans it back into a fresh value of the same type; it returns a description of a mismatch.
func c17RoundTrip(t *rapid.T) (c17Codec, string) {
	enc := func(v interface{}) ([]byte, error) {
		var buf bytes.Buffer
		err := New(&buf).Encode(v)
		return buf.Bytes(), err
	}
	kind := rapid.SampledFrom([]string{"int", "int8", "int16", "int32", "int64", "uint", "uint8", "uint16", "uint32", "uint64", "float32", "float64", "bool", "string", "bytes", "time", "duration", "binary"}).Draw(t, "type")
	c := c17Codec{Type: kind}
	mismatch := func(got, want interface{}) string {
		return fmt.Sprintf("%s: wrote %v, read back %v", kind, want, got)
	}
	switch kind {
	case "int":
		v := rapid.OneOf(rapid.Just(math.MinInt64), rapid.Just(math.MaxInt64), rapid.Just(0), rapid.Just(-1), rapid.Int()).Draw(t, "v")
		c.Repr = fmt.Sprint(v)
		b, err := enc(v)
		var out int
		if err == nil {
			err = Scan(b, &out)
		}
		if err != nil || out != v {
			return c, mismatch(out, v) + fmt.Sprintf(" err=%v", err)
		}
	case "int8":
		v := rapid.Int8().Draw(t, "v")
		c.Repr = fmt.Sprint(v)
		b, err := enc(v)
		var out int8
		if err == nil {
			err = Scan(b, &out)
		}
		if err != nil || out != v {
			return c, mismatch(out, v) + fmt.Sprintf(" err=%v", err)
		}
	case "int16":
		v := rapid.Int16().Draw(t, "v")
		c.Repr = fmt.Sprint(v)
		b, err := enc(v)
		var out int16
		if err == nil {
			err = Scan(b, &out)
		}
		if err != nil || out != v {
			return c, mismatch(out, v) + fmt.Sprintf(" err=%v", err)
		}
	case "int32":
		v := rapid.Int32().Draw(t, "v")
		c.Repr = fmt.Sprint(v)
		b, err := enc(v)
		var out int32
		if err == nil {
			err = Scan(b, &out)
		}
		if err != nil || out != v {
			return c, mismatch(out, v) + fmt.Sprintf(" err=%v", err)
		}
	case "int64":
		v := rapid.OneOf(rapid.Just(int64(math.MinInt64)), rapid.Just(int64(math.MaxInt64)), rapid.Int64()).Draw(t, "v")
		c.Repr = fmt.Sprint(v)
		b, err := enc(v)
		var out int64
		if err == nil {
			err = Scan(b, &out)
		}
		if err != nil || out != v {
			return c, mismatch(out, v) + fmt.Sprintf(" err=%v", err)
		}
	case "uint":
		v := rapid.OneOf(rapid.Just(uint(math.MaxUint64)), rapid.Uint()).Draw(t, "v")
		c.Repr = fmt.Sprint(v)
		b, err := enc(v)
		var out uint
		if err == nil {
			err = Scan(b, &out)
		}
		if err != nil || out != v {
			return c, mismatch(out, v) + fmt.Sprintf(" err=%v", err)
		}
	case "uint8":
		v := rapid.Uint8().Draw(t, "v")
		c.Repr = fmt.Sprint(v)
		b, err := enc(v)
		var out uint8
		if err == nil {
			err = Scan(b, &out)
		}
		if err != nil || out != v {
			return c, mismatch(out, v) + fmt.Sprintf(" err=%v", err)
		}
	case "uint16":
		v := rapid.Uint16().Draw(t, "v")
		c.Repr = fmt.Sprint(v)
		b, err := enc(v)
		var out uint16
		if err == nil {
			err = Scan(b, &out)
		}
		if err != nil || out != v {
			return c, mismatch(out, v) + fmt.Sprintf(" err=%v", err)
		}
	case "uint32":
		v := rapid.Uint32().Draw(t, "v")
		c.Repr = fmt.Sprint(v)
		b, err := enc(v)
		var out uint32
		if err == nil {
			err = Scan(b, &out)
		}
		if err != nil || out != v {
			return c, mismatch(out, v) + fmt.Sprintf(" err=%v", err)
		}
	case "uint64":
		v := rapid.OneOf(rapid.Just(uint64(math.MaxUint64)), rapid.Uint64()).Draw(t, "v")
		c.Repr = fmt.Sprint(v)
		b, err := enc(v)
		var out uint64
		if err == nil {
			err = Scan(b, &out)
		}
		if err != nil || out != v {
			return c, mismatch(out, v) + fmt.Sprintf(" err=%v", err)
		}
	case "float32":
		v := rapid.OneOf(rapid.Just(float32(math.MaxFloat32)), rapid.Just(float32(math.SmallestNonzeroFloat32)), rapid.Just(float32(math.Copysign(0, -1))), rapid.Just(float32(math.Inf(1))), rapid.Just(float32(math.Inf(-1))), rapid.Just(float32(math.NaN())), rapid.Float32()).Draw(t, "v")
		c.Repr = fmt.Sprint(v)
		b, err := enc(v)
		var out float32
		if err == nil {
			err = Scan(b, &out)
		}
		same := out == v && math.Signbit(float64(out)) == math.Signbit(float64(v))
		if v != v { // NaN reads back as NaN
			same = out != out
		}
		if err != nil || !same {
			return c, mismatch(out, v) + fmt.Sprintf(" err=%v", err)
		}
	case "float64":
		v := rapid.OneOf(rapid.Just(math.MaxFloat64), rapid.Just(math.SmallestNonzeroFloat64), rapid.Just(math.Copysign(0, -1)), rapid.Just(math.Inf(1)), rapid.Just(math.Inf(-1)), rapid.Just(math.NaN()), rapid.Float64()).Draw(t, "v")
		c.Repr = fmt.Sprint(v)
		b, err := enc(v)
		var out float64
		if err == nil {
			err = Scan(b, &out)
		}
		same := out == v && math.Signbit(out) == math.Signbit(v)
		if v != v {
			same = out != out
		}
		if err != nil || !same {
			return c, mismatch(out, v) + fmt.Sprintf(" err=%v", err)
		}
	case "bool":
		v := rapid.Bool().Draw(t, "v")
		c.Repr = fmt.Sprint(v)
		b, err := enc(v)
		var out bool
		if err == nil {
			err = Scan(b, &out)
		}
		if err != nil || out != v {
			return c, mismatch(out, v) + fmt.Sprintf(" err=%v", err)
		}
	case "string":
		v := string(genBytes(t))
		c.Repr = fmt.Sprintf("%d bytes", len(v))
		b, err := enc(v)
		var out string
		if err == nil {
			err = Scan(append([]byte(nil), b...), &out)
		}
		if err != nil || out != v {
			return c, fmt.Sprintf("string of %d bytes read back as %d bytes err=%v", len(v), len(out), err)
		}
	case "bytes":
		v := genBytes(t)
		c.Repr = fmt.Sprintf("%d bytes", len(v))
		b, err := enc(v)
		var out []byte
		if err == nil {
			err = Scan(append([]byte(nil), b...), &out)
		}
		if err != nil || !bytes.Equal(out, v) {
			return c, fmt.Sprintf("byte slice of %d bytes read back as %d bytes err=%v", len(v), len(out), err)
		}
	case "time":
		sec := rapid.Int64Range(-62135596800, 253402300799).Draw(t, "sec") // years 1..9999
		nsec := rapid.Int64Range(0, 999999999).Draw(t, "nsec")
		off := rapid.IntRange(-14*3600, 14*3600).Draw(t, "off")
		v := time.Unix(sec, nsec).In(time.FixedZone("z", off-off%60))
		if y := v.Year(); y < 1 || y > 9999 {
			v = v.UTC()
		}
		c.Repr = v.String()
		b, err := enc(v)
		var out time.Time
		if err == nil {
			err = Scan(b, &out)
		}
		if err != nil || !out.Equal(v) {
			return c, mismatch(out, v) + fmt.Sprintf(" err=%v", err)
		}
	case "duration":
		v := time.Duration(rapid.Int64().Draw(t, "v"))
		c.Repr = fmt.Sprint(int64(v))
		b, err := enc(v)
		var out time.Duration
		if err == nil {
			err = Scan(b, &out)
		}
		if err != nil || out != v {
			return c, mismatch(out, v) + fmt.Sprintf(" err=%v", err)
		}
	case "binary":
		v := c17Blob{B: genBytes(t)}
		c.Repr = fmt.Sprintf("%d bytes", len(v.B))
		b, err := enc(v)
		var out c17Blob
		if err == nil {
			err = Scan(append([]byte(nil), b...), &out)
		}
		if err != nil || !bytes.Equal(out.B, v.B) {
			return c, fmt.Sprintf("BinaryMarshaler of %d bytes read back as %d bytes err=%v", len(v.B), len(out.B), err)
		}
	}
	return c, ""
}

func TestVerifC17Codec(t *testing.T) {
	p := vcommon.Env()
	if p.Replay != "" {
		return
	}
	col := vcommon.NewCollector("C17", "codec")
	t.Cleanup(col.Flush)
	rapid.Check(t, func(rt *rapid.T) {
		c, bad := c17RoundTrip(rt)
		col.Record(vcommon.MustJSON(c), true, "type:"+c.Type)
		if bad != "" {
			v := vcommon.NewViolation("C17", "codec", "roundtrip:"+c.Type, c, "%s", bad)
			vcommon.SaveViolation(v)
			rt.Fatalf("%s", bad)
		}
	})
}
