#!/bin/bash
# seedmatrix.sh [seed dirs...]: runs the quick check of each seeded change's own property against the change
# (scratch worktree, VERIF_REPO) and prints one line per seed: detected / MISSED / inconclusive.
# Detection of a few changes depends on the drawn cases (C02-1, C02-2): VERIF_SEED 1, 2, 3 are tried in turn.
# A file seeded/<id>/also lists further property ids whose checks are run when the own one stays quiet.
cd /verif
dirs=${@:-$(ls -d seeded/C*-*)}
for d in $dirs; do
  id=$(basename $d | cut -d- -f1)
  verdict=""
  for s in 1 2 3; do
    out=$(SEEDRUN_ARGS="--seed $s" tools/seedrun.sh $d/patch.diff $id 2>&1)
    if echo "$out" | grep -q '^VIOLATION'; then
      verdict="detected at VERIF_SEED=$s ($(echo "$out" | grep -c '^VIOLATION') violation lines; $(echo "$out" | grep '^VIOLATION' | head -1 | sed 's/.*replays\///; s/.*regress\///'))"
      break
    elif ! echo "$out" | grep -q 'exit=0'; then
      verdict="inconclusive: $(echo "$out" | tail -2 | tr '\n' ' ' | cut -c1-200)"
      break
    fi
  done
  if [ -z "$verdict" ] && [ -f $d/also ]; then
    for other in $(cat $d/also); do
      out=$(tools/seedrun.sh $d/patch.diff $other 2>&1)
      if echo "$out" | grep -q '^VIOLATION'; then
        verdict="quiet in $id at seeds 1-3; detected by $other ($(echo "$out" | grep '^VIOLATION' | head -1 | sed 's/.*replays\///; s/.*regress\///'))"
        break
      fi
    done
  fi
  echo "$(basename $d): ${verdict:-MISSED}"
done
