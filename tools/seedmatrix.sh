#!/bin/bash
# seedmatrix.sh [seed dirs...]: runs the quick check of each seeded change's own property against the change
# (scratch worktree, VERIF_REPO) and prints one line per seed: detected / MISSED / inconclusive.
cd /verif
dirs=${@:-$(ls -d seeded/C*-*)}
for d in $dirs; do
  id=$(basename $d | cut -d- -f1)
  out=$(tools/seedrun.sh $d/patch.diff $id 2>&1)
  if echo "$out" | grep -q '^VIOLATION'; then
    echo "$(basename $d): detected ($(echo "$out" | grep -c '^VIOLATION') violation lines; $(echo "$out" | grep '^VIOLATION' | head -1 | sed 's/.*replays\///; s/.*regress\///'))"
  elif echo "$out" | grep -q 'exit=0'; then
    echo "$(basename $d): MISSED"
  else
    echo "$(basename $d): inconclusive: $(echo "$out" | tail -2 | tr '\n' ' ' | cut -c1-200)"
  fi
done
