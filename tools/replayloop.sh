#!/bin/bash
# replayloop.sh <ID> <test function> <case file> <runs> [parallel]: replays one case many times with the binaries the
# last "./run <ID>" built (placement of partitions depends on the members' ports, which differ from run to run).
ID=$1; T=$2; F=$(readlink -f $3); N=$4; P=${5:-6}
B=/verif/build/$ID/bin/root.test
O=/tmp/replayloop-$ID; rm -rf $O; mkdir -p $O
seq 1 $N | xargs -P $P -I{} sh -c "mkdir -p $O/{}; cd $O/{}; VERIF_REPLAY=$F VERIF_OUT=$O/{} VERIF_SEED=1 VERIF_TIER=quick VERIF_SHARD=0 VERIF_SHARDS=1 VERIF_REPO=/repo VERIF_DIR=/verif $B -test.run '^$T\$' -test.count=1 -test.timeout 120s > $O/{}/log.txt 2>&1; echo \$? > $O/{}/rc"
fails=0; for i in $(seq 1 $N); do if [ "$(cat $O/$i/rc)" != "0" ]; then fails=$((fails+1)); fi; done
echo "failed replays: $fails / $N (logs and viol files under $O)"
