#!/bin/bash
# confirm_seed.sh <worktree> <outdir> <demo package dir relative to repo root> [test packages...]
# Confirms a seeded change in a scratch worktree: applies on the worktree's HEAD, demo fails with it and
# passes without it, the project builds and the existing tests of the given packages (default ./...) pass with it.
# Every test run happens in a private network namespace: the suites pick "free" ports by probing, which collides
# with whatever else runs on the machine ("bind: address already in use").
W=$1; OUT=$2; PKG=$3; shift 3
TESTPKGS=${@:-./...}
export GOFLAGS=-mod=mod GOPROXY=off GOSUMDB=off GOTOOLCHAIN=local
cd "$W" || exit 2
NS() { unshare -n sh -c "ip link set lo up; ip addr add 10.99.0.1/24 dev lo 2>/dev/null; $*"; }
git checkout -q -- . ; git clean -fdq
DEMO=$(ls "$OUT"/*_test.go | head -1)
res() { echo "$1" | tee -a "$OUT/confirm.txt"; }
: > "$OUT/confirm.txt"
git apply --check "$OUT/patch.diff" || { res "patch does not apply"; exit 1; }
cp "$DEMO" "$PKG/zz_demo_seed_test.go"
DEMOTESTS=$(grep -o '^func Test[A-Za-z0-9_]*' "$DEMO" | sed 's/func //' | paste -sd'|')
NS "go test -vet=off -count=1 -run '^($DEMOTESTS)\$' ./$PKG" > "$OUT/demo_without.log" 2>&1 && res "demo without change: PASS" || res "demo without change: FAIL (unexpected)"
git apply "$OUT/patch.diff"
go build ./... > "$OUT/build.log" 2>&1 && res "build with change: ok" || res "build with change: FAILED"
NS "go test -vet=off -count=1 -run '^($DEMOTESTS)\$' ./$PKG" > "$OUT/demo_with.log" 2>&1 && res "demo with change: PASS (unexpected)" || res "demo with change: FAIL (expected)"
rm -f "$PKG/zz_demo_seed_test.go"
NS "go test -vet=off -count=1 -timeout 25m $TESTPKGS" > "$OUT/suite_with.log" 2>&1 && res "existing tests with change: PASS" || res "existing tests with change: FAIL: $(grep -E '^(--- FAIL|FAIL)' "$OUT/suite_with.log" | head -5 | tr '\n' ' ')"
git checkout -q go.sum 2>/dev/null
