#!/bin/bash
# seedrun.sh <patch.diff> <property ids...>: applies a seeded change to /repo, runs the quick checks, reverts.
P=$1; shift
export GOFLAGS=-mod=mod GOPROXY=off GOSUMDB=off GOTOOLCHAIN=local
git -C /repo status --short | grep -q . && { echo "/repo not clean"; exit 2; }
git -C /repo apply "$P" || { echo "patch does not apply"; exit 2; }
for id in "$@"; do
  /verif/run $id ${SEEDRUN_ARGS} 2>&1 | grep -v "^built" | cut -c1-400 | head -8
done
git -C /repo checkout -- . ; git -C /repo status --short
