#!/bin/bash
# seedrun.sh <patch.diff> <property ids...>: applies a seeded change to a scratch worktree of /repo's HEAD
# (VERIF_REPO points the checks at it), runs the quick checks, removes the worktree.
P=$(readlink -f "$1"); shift
export GOFLAGS=-mod=mod GOPROXY=off GOSUMDB=off GOTOOLCHAIN=local
W=$(mktemp -d /tmp/mutXXXX); rmdir $W
git -C /repo worktree add -q --detach $W HEAD || exit 2
if ! git -C $W apply "$P" 2>/dev/null; then
  git -C $W apply -3 "$P" >/dev/null 2>&1 || { echo "patch does not apply"; git -C /repo worktree remove --force $W; exit 2; }
fi
for id in "$@"; do
  VERIF_REPO=$W /verif/run $id ${SEEDRUN_ARGS} 2>&1 | grep -v "^built" | cut -c1-400 | head -8
done
git -C /repo worktree remove --force $W
