#!/bin/bash
# runall.sh <seed> [tier]: every registered check, one after the other; one summary line each.
SEED=${1:-1}; TIER=${2:-quick}
export GOFLAGS=-mod=mod GOPROXY=off GOSUMDB=off GOTOOLCHAIN=local
cd /verif
for id in $(python3 -c "from checks import CHECKS; print(' '.join(sorted(CHECKS)))"); do
  out=$(./run $id --tier $TIER --seed $SEED 2>&1)
  echo "$out" | grep -E "^(VIOLATION|KNOWN-FINDING|INCONCLUSIVE)" | cut -c1-300
  echo "$out" | tail -1
done
