"""Table of checks: property id -> parts (test functions), volumes per tier, evidence texts."""

KV = "./internal/kvstore"
ROOT = "."
DMAP = "./internal/dmap"

CHECKS = {
    "C11": {
        "level": "exploration",
        "technique": "model-based property testing (rapid) + exhaustive short-sequence enumeration against a reference map",
        "level_text": ("Generated engine operation sequences are executed against the real kvstore and a reference map; every observable "
                       "(Get, GetRaw, GetTTL, GetKey, Check, Stats.Length, Range, RangeHKey, full cursor scan) is compared after every step, "
                       "compaction-until-done must finish within a bound. All sequences up to length 5 (6 in thorough) over a 15-symbol alphabet are enumerated. "
                       "Exploration is the right level: the property is a refinement of a map, decidable per sequence; absence beyond the bounds is not shown."),
        "level_note": "trusted: the harness model (a Go map), the restated newer-timestamp-wins merge, rapid; tables of 128 B-2 KB stand in for 1 MB tables (same code path, sizes are relative)",
        "rule": ("engine operation sequences (put, raw replica put, delete, ttl update, one compaction step, "
                 "compaction until done, table transfer with/without re-delivery, scans) over 2-6 keys and value sizes "
                 "relative to tables of 128 B-2 KB, compared with a reference map after every step; part 'exhaustive' "
                 "enumerates every sequence up to the length bound over a 15-symbol alphabet (2 keys x 2 sizes), compared after the last step. "
                 "A case is non-trivial when it overwrites, deletes or ttl-updates a key whose live version sits in an older table, "
                 "compacts the table currently being written, or transfers >= 2 tables; distinct = distinct case hash (rapid) or distinct sequence (enumeration)."),
        "assumptions": ["timestamps grow with every write, as the DMap layer produces them",
                        "the merge used for transfer is the newer-timestamp-wins function of internal/dmap/balance.go re-stated in the harness"],
        "parts": [
            {"name": "rapid", "pkg": KV, "test": "TestVerifC11Rapid", "kind": "rapid",
             "checks_quick": 1500, "checks_thorough": 60000, "shards_quick": 8, "shards_thorough": 16,
             "timeout_quick": 300, "timeout_thorough": 1500},
            {"name": "exhaustive", "pkg": KV, "test": "TestVerifC11Exhaustive", "kind": "plain",
             "shards_quick": 8, "shards_thorough": 16, "timeout_quick": 300, "timeout_thorough": 1800},
        ],
    },
    "C15": {
        "level": "exploration",
        "technique": "differential + model-based property testing over entry paths (rapid)",
        "level_text": ("A drawn operation with a drawn option combination and prior key state is executed once per entry path "
                       "(embedded on owner, embedded on non-owner, cluster client, raw RESP to owner, raw RESP to non-owner, pipeline) on identically prepared fresh keys of a real in-process cluster; "
                       "every path must return the result the sequential model predicts and leave the same stored entry (value, presence, ttl within the measured window). "
                       "Exploration: the option x state x path matrix is small and is covered many times; other cluster shapes are sampled."),
        "level_note": "trusted: the sequential key model in the harness, rapid; the stored entry is read back through the owner's embedded client",
        "rule": ("case = (cluster shape, operation, option combination, prior state); executed through all six paths. Non-trivial: a combined option (condition + expiry), "
                 "a multi-key delete of >= 2 keys, or any other operation (every case includes the forwarded paths P2/P5); distinct = distinct case hash"),
        "assumptions": ["wall-clock ttl windows are derived from measured invocation/response instants with a 2 ms guard"],
        "parts": [
            {"name": "paths", "pkg": ROOT, "test": "TestVerifC15", "kind": "rapid",
             "checks_quick": 120, "checks_thorough": 2500, "shards_quick": 8, "shards_thorough": 16,
             "timeout_quick": 300, "timeout_thorough": 1500},
        ],
    },
    "C04": {
        "level": "exploration",
        "technique": "property-based testing of operation sequences with a white-box replica-equality invariant (rapid)",
        "level_text": ("Generated sequences of mutating operations (Put with every option combination, Expire, GetPut, Incr/Decr/IncrByFloat, Delete, Lock/Unlock/Lease, "
                       "ttl expiry followed by an eviction scan, LRU eviction) run through random entry paths of a real in-process cluster with R = 2..3; after every operation the raw entry of every key "
                       "is decoded on the primary owner and on every backup owner and must agree in key, value, ttl and timestamp, absent on a backup iff absent on the primary; DM.GETENTRY vs DM.GETENTRY RC is the behavioural twin."),
        "level_note": "trusted: harness accessors that read the fragments under their read lock; comparison only on a stable snapshot (primary read before and after the backups)",
        "rule": ("case = (cluster shape incl. optional LRU limit, 1-3 keys, 3-25 operations each with a path); non-trivial: R >= 2 (always) and the sequence applies an operation other than a plain Put "
                 "to an existing key (conditional/expiring Put, Expire, GetPut, Incr, Delete, Lock, eviction ...); distinct = distinct case hash"),
        "assumptions": ["last-access stamps are not compared (the statement does not include them)"],
        "parts": [
            {"name": "mirror", "pkg": ROOT, "test": "TestVerifC04", "kind": "rapid",
             "checks_quick": 100, "checks_thorough": 2500, "shards_quick": 8, "shards_thorough": 16,
             "timeout_quick": 300, "timeout_thorough": 1800},
        ],
    },
}

CHECKS["C01"] = {
    "level": "exploration",
    "technique": "model-based property testing (rapid) of sequential programs + generated concurrent histories checked for linearizability (porcupine as oracle)",
    "level_text": ("Generated client programs (Put / Put-NX / Put-XX / Get / Delete on 1-3 hot keys, filler writes that roll storage tables over) run against real in-process clusters "
                   "(1-3 members, R 1-3, partition counts, table sizes 512 B-1 MB) through every entry path. Sequential shape: every result is compared with a register model and read back through a second path. "
                   "Concurrent shape: 2-6 clients start on a barrier, the recorded (invocation, response, result) history must have a legal sequential order per key (porcupine). "
                   "Exploration: interleavings are produced by real concurrency plus a drawn delay at the put.afterCheck hook, not enumerated."),
    "level_note": "trusted: porcupine's checker, the register step function, wall-clock invocation/response stamps taken in the harness; membership is stable (pooled clusters)",
    "rule": ("seq: non-trivial = a Get/Delete/overwrite of an existing key while its primary fragment spans >= 2 tables. conc: non-trivial = two clients on different paths overlap in time on one key "
             "with a write and a Get/NX/XX. distinct = distinct case hash"),
    "assumptions": ["ReadRepair off (default)"],
    "parts": [
        {"name": "seq", "pkg": ROOT, "test": "TestVerifC01Seq", "kind": "rapid",
         "checks_quick": 60, "checks_thorough": 1500, "shards_quick": 6, "shards_thorough": 16, "timeout_quick": 300, "timeout_thorough": 1800},
        {"name": "conc", "pkg": ROOT, "test": "TestVerifC01Conc", "kind": "rapid",
         "checks_quick": 120, "checks_thorough": 3000, "shards_quick": 8, "shards_thorough": 16, "timeout_quick": 300, "timeout_thorough": 1800},
    ],
}

CHECKS["C07"] = {
    "level": "exploration",
    "technique": "property-based testing of concurrent callers with a conservation oracle and a counter linearizability check (rapid + porcupine as oracle)",
    "level_text": ("2-8 generated callers, each bound to an entry path (embedded on owner / on another member, cluster client, raw RESP to owner / to another member), issue Incr/Decr, IncrByFloat "
                   "(multiples of 0.25, so sums are exact) or GetPut with unique values on one key of a real in-process cluster. Oracle: final value = initial + sum of acknowledged deltas; the returned values "
                   "must be linearizable against a counter; GetPut results must form a single chain (exactly one 'no old value', no value returned twice, every written value returned once or final). "
                   "Exploration: schedules come from real concurrency widened by a drawn delay at the atomic.afterRead hook."),
    "level_note": "trusted: porcupine, the harness bookkeeping; plain Put is never mixed with atomic operations (README documents that as unsupported)",
    "rule": "case = (cluster shape, mode, initial value, callers with paths and deltas); non-trivial = the callers enter through >= 2 different members; distinct = distinct case hash",
    "assumptions": ["membership stable (pooled clusters)"],
    "parts": [
        {"name": "atomic", "pkg": ROOT, "test": "TestVerifC07", "kind": "rapid",
         "checks_quick": 40, "checks_thorough": 1200, "shards_quick": 8, "shards_thorough": 16, "timeout_quick": 300, "timeout_thorough": 1800},
        {"name": "retry", "pkg": ROOT, "test": "TestVerifC07Retry", "kind": "rapid",
         "checks_quick": 6, "checks_thorough": 60, "shards_quick": 4, "shards_thorough": 8, "timeout_quick": 300, "timeout_thorough": 1800},
    ],
}
CHECKS["C07"]["level_text"] += (" Part retry: one forwarded atomic call while the owner stalls once, between reading and writing, for longer than the internal client's read timeout (default re-sending switched on, timeout shortened): "
                                "one acknowledged call must have exactly one effect. All other harness clusters run with re-sending switched off.")
CHECKS["C07"]["assumptions"].append("outside part retry the members' internal client does not re-send a request that timed out (recorded finding: a re-sent atomic operation is applied twice)")

CHECKS["C08"] = {
    "level": "exploration",
    "technique": "property-based testing: generated lock contention with an interval-overlap oracle, and generated adversarial token scripts against a lock model (rapid)",
    "level_text": ("'contend': 2-6 generated lockers (entry path, timeout, deadline, hold time, then unlock / lease / abandon) compete for one key of a real in-process cluster; from the measured instants "
                   "each successful locker certainly holds during [Lock.response, min(release.invocation, Lock.invocation+timeout)] and two such intervals must not intersect; a failed Lock must be lock-not-acquired no earlier than its deadline. "
                   "'script': sequential steps (lock through any path, unlock / lease with the right, a forged or a stale token, unlock twice, wait for expiry) are checked against a model of the holder and its expiry window; "
                   "wrong tokens must give no-such-lock and leave the stored token and ttl unchanged (white box). Exploration with real timers; the harness does not own the clock."),
    "level_note": "trusted: wall-clock stamps taken in the harness with a 3 ms guard; outcomes inside the guard window are not asserted",
    "rule": ("contend: non-trivial = two lockers' attempts overlap in time. script: non-trivial = a timed lock taken through a non-owner member, or a stale token presented after the lock changed hands. distinct = distinct case hash"),
    "assumptions": ["membership stable (pooled clusters)"],
    "parts": [
        {"name": "contend", "pkg": ROOT, "test": "TestVerifC08Contend", "kind": "rapid",
         "checks_quick": 25, "checks_thorough": 600, "shards_quick": 8, "shards_thorough": 16, "timeout_quick": 300, "timeout_thorough": 1800},
        {"name": "script", "pkg": ROOT, "test": "TestVerifC08Script", "kind": "rapid",
         "checks_quick": 30, "checks_thorough": 800, "shards_quick": 8, "shards_thorough": 16, "timeout_quick": 300, "timeout_thorough": 1800},
    ],
}

CHECKS["C09"] = {
    "level": "exploration",
    "technique": "model-based property testing of operation sequences around a measured expiry deadline (rapid)",
    "level_text": ("Generated sequences (Put with EX/PX/EXAT/PXAT, DMap default TTL, plain Put, GetPut, Incr, Expire/PExpire, probes Get / NX / XX / Expire, waits past the deadline, explicit eviction scans) "
                   "run on one key through random entry paths of a real in-process cluster with ttl 20-400 ms. The harness records invocation and response instants of every call and derives the deadline window; "
                   "a call that responded before the window must see the key, a call invoked after it must behave as on an absent key (Get not-found, GetPut no old value, Incr from 0, NX succeeds, XX and Expire key-not-found), "
                   "whether or not eviction already ran; plain Put/GetPut clear the expiry, Incr keeps it, Expire replaces it and keeps the value."),
    "level_note": "trusted: wall-clock stamps taken in the harness, 2 ms guard around the deadline window; calls that overlap the window are not asserted (their observed outcome updates the model)",
    "rule": ("case = (cluster shape, optional default TTL, 3-12 steps with paths); non-trivial = a post-deadline probe other than Get on a key that is stored but expired, or a ttl-preservation/clearing step "
             "(Incr/Expire/plain Put/GetPut on a key with a deadline); distinct = distinct case hash"),
    "assumptions": ["one background eviction worker instead of one per CPU, so that 'expired but not yet evicted' states persist long enough to be probed"],
    "parts": [
        {"name": "ttl", "pkg": ROOT, "test": "TestVerifC09", "kind": "rapid",
         "checks_quick": 60, "checks_thorough": 1500, "shards_quick": 8, "shards_thorough": 16, "timeout_quick": 300, "timeout_thorough": 1800},
    ],
}

CHECKS["C19"] = {
    "level": "exploration",
    "technique": "model-based property testing: one reference model per DMap over colliding names/keys (rapid)",
    "level_text": ("A generated sequence of operations (Put/Get/Delete/Expire/Incr/GetPut/Lock/Unlock/Scan/Destroy through random entry paths) runs on 2-3 DMaps whose names and keys are chosen so that "
                   "name+key concatenations coincide (\"ab\"+\"c\" vs \"a\"+\"bc\") and keys are shared; every result must match the DMap's own model and after every step every other DMap must still read exactly its model. "
                   "After Destroy no member stores an entry of that DMap in any primary or backup partition (white box), every key reads not-found from every member, a scan is empty, and the DMap accepts new writes."),
    "level_note": "trusted: harness accessor listing fragment keys; per-DMap eviction limits are not part of this check (LRU makes the model non-deterministic), they are exercised in C10",
    "rule": ("case = (cluster shape, colliding name set, key set, 5-40 operations); non-trivial = a Destroy of a non-empty DMap, or a Destroy/Delete/Lock/Incr on a key that another DMap holds under the same key or the same concatenation; distinct = distinct case hash"),
    "assumptions": ["membership stable (pooled clusters)"],
    "parts": [
        {"name": "dmaps", "pkg": ROOT, "test": "TestVerifC19", "kind": "rapid",
         "checks_quick": 80, "checks_thorough": 2000, "shards_quick": 8, "shards_thorough": 16, "timeout_quick": 300, "timeout_thorough": 1800},
    ],
}

CHECKS["C12"] = {
    "level": "exploration",
    "technique": "property-based testing: generated table layouts and key sets, full iterations compared with the exact key set (rapid)",
    "level_text": ("engine: C11's generator (overwrites, deletes, raw replica writes, compaction leaving holes and recycled tables, transfers) shapes the tables, then the cursor loop is driven to completion with COUNT in {1,2,3,10,1000} "
                   "and MATCH patterns; it must terminate within a bound and yield exactly the present (matching) keys. cluster: on real in-process clusters (1-3 members, R 1-2, 1-13 partitions, small tables) a generated history of puts, "
                   "overwrites, deletes and compactions is followed by full iterations through the embedded iterator, the cluster-client iterator and raw DM.SCAN cursor loops per partition on primaries and on replicas, optionally while other keys are "
                   "written and deleted concurrently: every stable key at least once (exactly once through the client iterators), no deleted or never-stored key, MATCH exact."),
    "level_note": "trusted: Go's regexp as the specification of MATCH; the harness model of the key set; membership stable",
    "rule": ("engine: non-trivial = a scan with COUNT < 1000 or MATCH over tables with holes/recycled tables, or COUNT = 1 over >= 2 keys, or a MATCH that filters. cluster: non-trivial = COUNT = 1, or COUNT < 1000 while some fragment spans >= 2 tables, or a MATCH on a non-empty DMap. distinct = distinct case hash"),
    "assumptions": ["no ttl is used (expired keys are outside this property)"],
    "parts": [
        {"name": "engine", "pkg": KV, "test": "TestVerifC12Engine", "kind": "rapid",
         "checks_quick": 1500, "checks_thorough": 60000, "shards_quick": 8, "shards_thorough": 16, "timeout_quick": 300, "timeout_thorough": 1800},
        {"name": "cluster", "pkg": ROOT, "test": "TestVerifC12Cluster", "kind": "rapid",
         "checks_quick": 40, "checks_thorough": 1000, "shards_quick": 8, "shards_thorough": 16, "timeout_quick": 300, "timeout_thorough": 1800},
    ],
}

CHECKS["C20"] = {
    "level": "exploration",
    "technique": "property-based testing of long churn workloads with exact byte accounting and a derived allocation bound as oracles (rapid)",
    "level_text": ("engine: generated churn (overwrite / delete / ttl update over 5-50 fixed keys, value sizes <= table/4, through Put or the replica path PutRaw) in rounds with compaction-until-done between rounds; after every round "
                   "Stats().Inuse must equal the encoded size of the live entries exactly (superseded bytes moved to garbage), compaction must report completion within a bound and leave no table at or above the 40 % garbage threshold, "
                   "and the number of tables ever allocated must stay below ceil(peakLive/(0.6*S-e_max)) + ceil(roundBytes/(S-e_max)) + ceil(peakLive/(S-e_max)) + 4, a bound that does not grow with the number of rounds. "
                   "dmap: the same on real clusters (R 1-2) through client paths, using the compaction worker's own routine, checked per fragment on primaries and on backups."),
    "level_note": "trusted: the derivation of the table bound (DESIGN.md C20); 'of any length' is sampled up to ~10^5 writes in the thorough tier",
    "rule": ("engine: non-trivial = >= 3 rounds and at least one table was recycled. dmap: non-trivial = a backup fragment was examined (R = 2). distinct = distinct case hash"),
    "assumptions": ["entries written with a 1 ms ttl may be evicted in the background at any time: the byte accounting accepts both"],
    "parts": [
        {"name": "engine", "pkg": KV, "test": "TestVerifC20Engine", "kind": "rapid",
         "checks_quick": 300, "checks_thorough": 2500, "shards_quick": 8, "shards_thorough": 16, "timeout_quick": 300, "timeout_thorough": 1800},
        {"name": "dmap", "pkg": ROOT, "test": "TestVerifC20DMap", "kind": "rapid",
         "checks_quick": 12, "checks_thorough": 120, "shards_quick": 8, "shards_thorough": 16, "timeout_quick": 300, "timeout_thorough": 1800},
    ],
}

CHECKS["C18"] = {
    "level": "exploration",
    "technique": "property-based testing of read-then-mutate/churn sequences with a snapshot-stability oracle (rapid)",
    "level_text": ("Generated sequences on real in-process clusters with 256 B-1 KB tables: Put, reads through Get().Byte(), Get().String() and GetPut via the embedded client on the owner (the path without a network copy), "
                   "on another member and through the cluster client; then overwrites of different length, deletes, churn that recycles storage tables, compaction, Destroy; the harness mutates returned slices in place and scribbles over the buffer it passed to Put. "
                   "After every step every value handed out earlier must equal the private copy taken when it was returned, and a fresh Get of every key through two paths must return the model value. The engine contract of kvstore.Get is checked the same way in package kvstore."),
    "level_note": "trusted: the harness' private copies; migration to another member is exercised in C03/C17, not here",
    "rule": ("snapshots: non-trivial = a returned slice was mutated, or an overwrite/delete followed a read taken through the owner's embedded client. engine: non-trivial = returned slices mutated or >= 200 churn writes (tables recycled). distinct = distinct case hash"),
    "assumptions": ["single-threaded sequences; the concurrent variant under -race is a diagnostic only and not part of the check"],
    "parts": [
        {"name": "snapshots", "pkg": ROOT, "test": "TestVerifC18", "kind": "rapid",
         "checks_quick": 60, "checks_thorough": 1500, "shards_quick": 8, "shards_thorough": 16, "timeout_quick": 300, "timeout_thorough": 1800},
        {"name": "engine", "pkg": KV, "test": "TestVerifC18Engine", "kind": "rapid",
         "checks_quick": 500, "checks_thorough": 20000, "shards_quick": 4, "shards_thorough": 16, "timeout_quick": 300, "timeout_thorough": 1800},
    ],
}

CHECKS["C17"] = {
    "level": "exploration",
    "technique": "round-trip property testing over typed boundary values, arbitrary-byte keys and sizes around the limits (rapid)",
    "level_text": ("codec: every supported type (all integer widths with extremes, float32/64 incl. max, denormal, -0, +-Inf, NaN, bool, strings/byte slices that are empty, binary, contain CR/LF or are up to 70 KB, time in years 1-9999 in random zones, "
                   "duration, a BinaryMarshaler) is encoded and scanned back into the same type. e2e: typed values under keys of 1-255 arbitrary bytes are written through the embedded client on the owner / on another member, the cluster client and a pipeline of a real "
                   "in-process cluster, read back through another path into the same type, compared with the backup copy (R = 2), listed by a scan, and read again after a member joined and fragments migrated. Keys of 256+ bytes and entries of table size -2..+2 bytes "
                   "must be rejected (key-too-large / entry-too-large; with R >= 2 any error, but never an acknowledgement), neighbours stay readable and no member stores a key that was never written (white box)."),
    "level_note": "trusted: reflect-free typed comparison in the harness; NaN reads back as NaN (payload bits are not promised by a textual encoding), Time by Equal",
    "rule": ("codec: every case is a boundary-or-random value of one type (all non-trivial). e2e: non-trivial = a key of >= 254 bytes or with CR/LF/NUL, a float special, a migration, or a rejection probe. distinct = distinct case hash"),
    "assumptions": ["empty keys are not generated (no caller in the repository uses them)"],
    "parts": [
        {"name": "codec", "pkg": "./internal/resp", "test": "TestVerifC17Codec", "kind": "rapid",
         "checks_quick": 4000, "checks_thorough": 200000, "shards_quick": 4, "shards_thorough": 16, "timeout_quick": 300, "timeout_thorough": 1800},
        {"name": "e2e", "pkg": ROOT, "test": "TestVerifC17", "kind": "rapid",
         "checks_quick": 30, "checks_thorough": 1200, "shards_quick": 8, "shards_thorough": 16, "timeout_quick": 300, "timeout_thorough": 1800},
    ],
}

CHECKS["C16"] = {
    "level": "exploration",
    "technique": "exhaustive enumeration of short argument vectors and option suffixes plus random vectors (rapid), against the real command multiplexer under recover() and a watchdog",
    "level_text": ("Every registered command (both cases) plus unknown names is invoked in process through the member's real multiplexer with a recording connection: (short) every argument vector of up to 3 tokens from a 31-token alphabet "
                   "(option keywords in both cases, numbers that are empty, negative, fractional, 1e309, NaN, 2^63-1, 2^64, huge, non-numeric, empty/binary/300-byte strings); (suffix) a valid form of every command followed by every suffix of up to 3 tokens (4 in thorough), "
                   "and every single-position substitution and truncation of the valid form; (rapid) random vectors of up to 12 arguments with raw bytes on a two-member cluster so that forwarding paths run. "
                   "Oracle: no panic, the handler returns within 10 s, it wrote a reply, and the member still answers PING over TCP afterwards. Failures are grouped by root cause (first repository frame of the panic / command of the hang)."),
    "level_note": "trusted: the recording connection stands in for redcon's; every DMap is wiped locally before each vector so that no earlier command (a held lock) can make a later one wait legitimately; SUBSCRIBE/PSUBSCRIBE take the connection over and are exercised over TCP in C14",
    "rule": "short/suffix: complete enumerations (every vector is distinct by construction and is malformed or carries option tokens: non-trivial); rapid: distinct case hash",
    "assumptions": ["internal.node.updaterouting with a well-formed table is the documented way a coordinator installs routing and is not replayed with arbitrary suffixes"],
    "parts": [
        {"name": "short", "pkg": ROOT, "test": "TestVerifC16Short", "kind": "plain", "shards_quick": 8, "shards_thorough": 16, "timeout_quick": 400, "timeout_thorough": 1800},
        {"name": "suffix", "pkg": ROOT, "test": "TestVerifC16Suffix", "kind": "plain", "shards_quick": 8, "shards_thorough": 16, "timeout_quick": 400, "timeout_thorough": 3000},
        {"name": "rapid", "pkg": ROOT, "test": "TestVerifC16Rapid", "kind": "rapid",
         "checks_quick": 3000, "checks_thorough": 100000, "shards_quick": 4, "shards_thorough": 16, "timeout_quick": 400, "timeout_thorough": 1800},
    ],
}

CHECKS["C14"] = {
    "level": "exploration",
    "technique": "model-based property testing of a pub/sub state machine over real TCP connections with a PING barrier (rapid)",
    "level_text": ("Generated sequences of SUBSCRIBE / PSUBSCRIBE / UNSUBSCRIBE / PUNSUBSCRIBE (with and without arguments, duplicates allowed) / PUBLISH through any member / disconnect (close or QUIT) / PUBSUB CHANNELS [pattern] / NUMSUB / NUMPAT "
                   "run over 2-6 raw RESP connections spread over 1-3 members. After every PUBLISH a PING on every subscriber connection is a deterministic barrier; what arrived before the pong must be exactly the deliveries of the model "
                   "(per connection a set of channels and a set of patterns; channels a, ab, abc, b, news.x; patterns a*, *, ?b, news.*, zzz*, a): exactly one message for a connection with one matching subscription, nothing for a connection without one, "
                   "and the integer returned by PUBLISH equals the number of messages received. CHANNELS / NUMSUB / NUMPAT must report the distinct channels, the per-channel subscriber connections and the distinct patterns of the queried member."),
    "level_note": ("trusted: the harness' RESP reader and 20-line glob matcher over that alphabet. When several subscriptions of ONE connection match (channel + pattern) the statement's 'once per connection' and the Redis protocol's 'once per subscription' differ: "
                   "there the check requires at least one and at most one delivery per matching subscription"),
    "rule": ("non-trivial = a publish with >= 1 matching subscriber, and either a non-matching subscriber plus a matching one on a member other than the publisher's, or an earlier unsubscribe/disconnect; distinct = distinct case hash"),
    "assumptions": ["a closed connection is forgotten by its member asynchronously: the harness waits (white box) until the member dropped it before continuing"],
    "parts": [
        {"name": "pubsub", "pkg": ROOT, "test": "TestVerifC14", "kind": "rapid",
         "checks_quick": 150, "checks_thorough": 4000, "shards_quick": 8, "shards_thorough": 16, "timeout_quick": 300, "timeout_thorough": 1800},
    ],
}

CHECKS["C05"] = {
    "level": "fault_enumeration",
    "technique": "exhaustive enumeration of quorum configurations x unreachable-backup subsets on real clusters, plus generated member-count-quorum scenarios (rapid), against quorum arithmetic",
    "level_text": ("rw: every (ReplicaCount, WriteQuorum, ReadQuorum) with 1 <= W, RQ <= R <= 3, cluster sizes R and R+1, and every subset of the key's backup owners made unreachable while they stay members (RESP listener and accepted connections closed, gossip running) "
                   "is built as a fresh in-process cluster: Put must succeed iff the reachable copies >= W (white box: at least W copies hold the value) and fail with the write-quorum error otherwise; Get of a key stored on all copies must return it iff reachable copies >= RQ and fail with the read-quorum error otherwise. "
                   "mcq: clusters with MemberCountQuorum 1-3 are shrunk to exactly the quorum (still served) and below it: every public and internal command over RESP and NewDMap must fail with the cluster-quorum error and the stored keys must be unchanged."),
    "level_note": "trusted: the accessor that closes a member's RESP server; keys, entry paths and read-repair on/off vary with VERIF_SEED; a cluster that cannot be built or does not stabilise makes the scenario inconclusive (retried 3 times)",
    "rule": ("rw: the complete matrix (124 scenarios per round, 34 of them with the owner copy missing as after a failover; thorough 6 rounds with other keys/paths); non-trivial = reachable copies in {W-1, W, RQ-1, RQ}. mcq: non-trivial = the cluster was taken to exactly the quorum and (for quorum >= 2) below it. distinct = distinct scenario / case hash"),
    "assumptions": ["internal.node.updaterouting is excluded below the quorum: the code documents it as the precondition for operability"],
    "parts": [
        {"name": "rw", "pkg": ROOT, "test": "TestVerifC05RW", "kind": "plain", "shards_quick": 12, "shards_thorough": 16, "timeout_quick": 400, "timeout_thorough": 2400},
        {"name": "mcq", "pkg": ROOT, "test": "TestVerifC05MCQ", "kind": "rapid",
         "checks_quick": 3, "checks_thorough": 40, "shards_quick": 4, "shards_thorough": 16, "timeout_quick": 400, "timeout_thorough": 2400},
    ],
}

CHECKS["C13"] = {
    "level": "fault_enumeration",
    "technique": "property-based testing over generated membership event sequences (join, graceful leave, abrupt stop, coordinator departure, re-join under the same address) with a routing-table validity oracle (rapid)",
    "level_text": ("Private in-process clusters (1-6 members, R 1-3, 7/13/31 partitions, fast failure detection, a light write load so that previous owners really hold data) go through 1-6 generated membership events. "
                   "After the membership has settled (every survivor counts exactly the live members and all hold the same table) the table of every member must be valid: one live primary owner per partition, min(R,N)-1 distinct live current backup owners other than the primary, "
                   "every other listed owner alive and still holding data, no departed member id anywhere, primaries per member <= ceil(P/N * 1.25); CLUSTER.ROUTINGTABLE and CLUSTER.MEMBERS from every member equal the member's own view, the coordinator flag sits on the oldest live member, "
                   "and 50 keys map to the same owner on every member and for a client."),
    "level_note": "trusted: the harness' abrupt stop (gossip shut down without leave, RESP server closed, services cancelled); settling has a time budget (inconclusive when exceeded); emptied previous owners get 8 s (40 routing pushes) to be pruned before they are reported",
    "rule": "case = (start size, R, partitions, event list); non-trivial = >= 2 events including a leave/stop, or a coordinator change, or a re-join under the same address; distinct = distinct case hash",
    "assumptions": ["placement relative to a routing push in flight is not controlled"],
    "parts": [
        {"name": "routing", "pkg": ROOT, "test": "TestVerifC13", "kind": "rapid",
         "checks_quick": 10, "checks_thorough": 250, "shards_quick": 8, "shards_thorough": 16, "timeout_quick": 400, "timeout_thorough": 2400},
    ],
}

CHECKS["C02"] = {
    "level": "fault_enumeration",
    "technique": "property-based testing of workloads with generated fault schedules (victim role, graceful/abrupt, between or inside operations via crash points) against an admissible-value model (rapid)",
    "level_text": ("Private in-process clusters (N 3-5, R 2-3, W = RQ = 1, read-repair on/off, small tables, fast failure detection) run a generated workload of Put/Delete/Get through random live members with up to R-1 member stops: "
                   "the victim is chosen by role for a key (its primary owner, a backup owner, the coordinator, a bystander), stopped gracefully or abruptly, between two operations or inside the owner's write of that key at a hook point "
                   "(after a backup was written, before the local write, after previous owners / backups were deleted). After every stop the harness waits for re-stabilisation and then reads every asserted key from every survivor: "
                   "the value must be admissible (the last acknowledged value, or one of the values of writes that failed or were cut), all survivors must agree, acknowledged Deletes must stay not-found, and the workload continues against the same model."),
    "level_note": ("trusted: the in-process abrupt stop (RESP server closed, gossip stopped without leave, services cancelled; goroutines already past the crash point are parked) - a SIGKILL of a separate process is not used; "
                   "only writes acknowledged while >= R members were present are asserted; a stabilisation time-out makes the case inconclusive"),
    "rule": ("case = (N, R, partitions, read-repair, keys, operations incl. stops); non-trivial = a stop of the primary or a backup owner of an asserted key after at least one asserted key had been overwritten or deleted; distinct = distinct case hash"),
    "assumptions": ["at most R-1 stops in total (Olric does not re-create lost redundancy)"],
    "parts": [
        {"name": "durability", "pkg": ROOT, "test": "TestVerifC02", "kind": "rapid",
         "checks_quick": 16, "checks_thorough": 120, "shards_quick": 14, "shards_thorough": 16, "timeout_quick": 400, "timeout_thorough": 2400},
        {"name": "stepped", "pkg": ROOT, "test": "TestVerifC02Stepped", "kind": "rapid",
         "checks_quick": 8, "checks_thorough": 150, "shards_quick": 8, "shards_thorough": 16, "timeout_quick": 400, "timeout_thorough": 2400},
    ],
}
CHECKS["C02"]["level_text"] += (" Part stepped: the same promise for plain Put and Delete issued after a stop, on members whose routing push and balancer only run when the harness says so - the table is pushed, nothing moves - so that a Delete "
                                "that does not reach a copy is told from the recorded finding (a Delete that meets a fragment in flight): after the stop an acknowledged Delete must leave no copy on any survivor and read not-found everywhere, an acknowledged Put must be read everywhere.")
CHECKS["C02"]["rule"] += "; part stepped: non-trivial = a key of which the stopped member held a copy is deleted after the stop"
CHECKS["C02"]["level_note"] += ("; a deleted key that reads an old value is attributed to the recorded finding (KNOWN_FINDINGS.txt) only on what the check saw: the Delete ran while the partition's owner lists were being re-arranged after a stop, "
                               "or the value that came back had been seen, since the key's last acknowledged Put, in a fragment that the partition's primary owner does not list (label unlisted-copies-seen); any other wrong read is a violation")

CHECKS["C03"] = {
    "level": "fault_enumeration",
    "technique": "stateful property testing (rapid): generated interleavings of client operations with explicitly driven hand-over steps (join, routing push, single balancer rounds, janitor, compaction, leave, crash at a move step) against a key/value model",
    "level_text": ("Members run without periodic routing push, balancer, janitor and compaction; the harness invokes those as generated steps, so Put / overwrite / Delete / Get / Scan are placed after the push but before a move, between table moves of a multi-table fragment, "
                   "after the move but before the emptied owner is pruned, and after. With R = 2 one graceful or abrupt leave, or a crash of the sender (move.afterSend, move.beforeDrop) or receiver (merge.entry) inside a fragment move, is injected once the backups are in place. "
                   "Every read during the hand-over must return the last acknowledged value and every delete must stick; at the end the hand-over is driven to quiescence and every key must read its last value from every member, deleted keys must stay not-found, "
                   "white box each key has exactly one primary copy, on the partition's owner, its backup copies exist, and a scan yields the model's keys."),
    "level_note": "trusted: the harness' stepping accessors (BalanceEagerly, UpdateEagerly, janitor, the compaction routine) and abrupt stop; quiescence has a step budget (inconclusive when exceeded); placement relative to a routing push in flight is not controlled",
    "rule": "non-trivial = an overwrite, delete or read of an existing key executed while its partition had >= 2 owners and a fragment of >= 2 tables, or a crash point that fired; distinct = distinct case hash",
    "assumptions": ["at most R-1 members are lost per case; keys written while fewer than R members were present are only checked for staleness and resurrection after a loss"],
    "parts": [
        {"name": "rebalance", "pkg": ROOT, "test": "TestVerifC03", "kind": "rapid",
         "checks_quick": 12, "checks_thorough": 300, "shards_quick": 8, "shards_thorough": 16, "timeout_quick": 400, "timeout_thorough": 2400},
        {"name": "race", "pkg": ROOT, "test": "TestVerifC03Race", "kind": "rapid",
         "checks_quick": 24, "checks_thorough": 200, "shards_quick": 8, "shards_thorough": 16, "timeout_quick": 400, "timeout_thorough": 2400},
    ],
}
CHECKS["C03"]["level_text"] += (" Part race places one operation inside a step: a Put that has passed the owner check is held right before it locks the fragment, a member joins, the table is pushed and the old owner's balancer moves the fragment; "
                                "at a drawn table move (after the send or before the drop) the Put is let go while the move is in progress. After the hand-over has been driven to the end the acknowledged Put and every other key must read their last value from every member.")
CHECKS["C03"]["rule"] += "; part race: non-trivial = the key's partition moved to the joining member and the Put was let go while a table move was in flight"

CHECKS["C06"] = {
    "level": "exploration",
    "technique": "property-based testing over generated copy placements with drawn timestamps (reads, read-repair) and generated table deliveries (merge) with a max-timestamp / order-independence oracle (rapid)",
    "level_text": ("reads: on stepped in-process clusters (2-4 members, R 1-3, read-repair on/off, optionally a member joined without balancing so that partitions have previous owners) every holder of a key - primary owner, previous owners, backup owners - "
                   "independently gets no copy or a copy whose timestamp is drawn from a 4-value set (ties included), written directly into its fragment. A Get through any member must return a value carrying the maximum timestamp (any of the tied ones), not-found only if no copy exists; "
                   "with read-repair one Get must bring the owner's own copy and every backup copy that had an older timestamp to the newest version and leave the newest copies untouched; with read-repair off no copy may change. "
                   "merge: a target fragment with 0-5 entries receives 1-4 tables built with the real engine (overlapping keys, arbitrary timestamps) through internal.node.movefragment in a drawn order with repetitions; every key must end with the maximum timestamp of everything delivered or pre-existing."),
    "level_note": "trusted: the accessor that writes a copy with a chosen timestamp into a fragment; a backup that holds no copy is not asserted (the statement says 'stale')",
    "rule": "reads: non-trivial = >= 2 copies with different timestamps and the newest is not on the primary owner. merge: non-trivial = an overlapping key delivered out of timestamp order. distinct = distinct case hash",
    "assumptions": ["ReadQuorum 1"],
    "parts": [
        {"name": "reads", "pkg": ROOT, "test": "TestVerifC06Reads", "kind": "rapid",
         "checks_quick": 25, "checks_thorough": 600, "shards_quick": 8, "shards_thorough": 16, "timeout_quick": 400, "timeout_thorough": 2400},
        {"name": "merge", "pkg": ROOT, "test": "TestVerifC06Merge", "kind": "rapid",
         "checks_quick": 400, "checks_thorough": 10000, "shards_quick": 4, "shards_thorough": 16, "timeout_quick": 400, "timeout_thorough": 2400},
    ],
}

CHECKS["C10"] = {
    "level": "exploration",
    "technique": "property-based testing of put sequences under generated eviction limits with white-box per-partition bounds after every Put, and of access patterns around the idle window with measured gaps (rapid)",
    "level_text": ("limits: on in-process clusters (1-2 members, R 1-2, 7/13/31 partitions) with LRU eviction and MaxKeys 1-60 (including values below the partition count) or MaxInuse for equally sized entries, LRUSamples 1-10, "
                   "50-300 Puts with uniform or skewed key distributions (keys pre-bucketed by partition) and interleaved Gets: no Put may fail, the key just written must be readable, and after every Put every owned partition holds at most max(1, MaxKeys/owned) keys, "
                   "the member at most max(MaxKeys, owned) keys, and at most MaxInuse/owned bytes plus one entry per partition. "
                   "idle: with MaxIdleDuration 150/250 ms, keys accessed (Get or Put) every third of the window must never be missing while the measured gaps stay 20 ms inside the window; keys left untouched for more than the window plus 20 ms must be gone "
                   "from the owner and from every backup owner after one explicit eviction scan of their fragment (checked white box, without reading them)."),
    "level_note": "trusted: wall-clock gaps measured in the harness with a 20 ms guard; 'eventually disappears' is decided for an explicitly invoked eviction scan (how soon the randomised background worker reaches a partition is not asserted)",
    "rule": "limits: non-trivial = an eviction happened (a partition reached its share), or MaxKeys < partition count, or a skewed distribution. idle: non-trivial = at least one key was left idle past the window. distinct = distinct case hash",
    "assumptions": ["membership stable"],
    "parts": [
        {"name": "limits", "pkg": ROOT, "test": "TestVerifC10Limits", "kind": "rapid",
         "checks_quick": 30, "checks_thorough": 800, "shards_quick": 8, "shards_thorough": 16, "timeout_quick": 400, "timeout_thorough": 2400},
        {"name": "idle", "pkg": ROOT, "test": "TestVerifC10Idle", "kind": "rapid",
         "checks_quick": 8, "checks_thorough": 200, "shards_quick": 8, "shards_thorough": 16, "timeout_quick": 400, "timeout_thorough": 2400},
    ],
}

# thorough-only native fuzz campaigns (coverage guided, cannot be seeded; hitting the time budget means "nothing found")
CHECKS["C11"]["parts"].append(
    {"name": "fuzz", "pkg": KV, "test": "FuzzVerifC11", "kind": "fuzz", "build_flags": ["-fuzz=FuzzVerifC11"], "thorough_only": True,
     "shards_thorough": 1, "fuzztime_thorough": "150s", "fuzz_workers": 12, "timeout_thorough": 900})
CHECKS["C11"]["rule"] += " Thorough adds a native go-fuzz campaign over an operation tape (same oracle inside the target); its count of non-trivial cases is the number of inputs that reached new coverage."
CHECKS["C16"]["parts"].append(
    {"name": "fuzz", "pkg": ROOT, "test": "FuzzVerifC16", "kind": "fuzz", "build_flags": ["-fuzz=FuzzVerifC16"], "thorough_only": True,
     "shards_thorough": 1, "fuzztime_thorough": "150s", "fuzz_workers": 12, "timeout_thorough": 900})
CHECKS["C16"]["rule"] += "; thorough adds a native go-fuzz campaign that decodes bytes into argument vectors (non-trivial there = inputs that reached new coverage)"
CHECKS["C16"]["parts"].append(
    {"name": "e2e", "pkg": ROOT, "test": "TestVerifC16E2E", "kind": "rapid", "needs_binaries": [("./cmd/olric-server", "olric-server")],
     "checks_quick": 150, "checks_thorough": 5000, "shards_quick": 4, "shards_thorough": 16, "timeout_quick": 400, "timeout_thorough": 2400})
CHECKS["C16"]["level_text"] += (" End to end (part e2e): a real olric-server child process receives generated argument vectors and raw byte streams (RESP fragments with wrong type bytes, negative, huge and non-numeric lengths, truncated frames, inline commands, noise) "
                                "on fresh TCP connections; after each one the process must be alive and answer PING on a new connection.")
