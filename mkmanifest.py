#!/usr/bin/env python3
"""Regenerates MANIFEST.json from checks.py (run after editing checks.py)."""
import json, os, subprocess, sys
sys.path.insert(0, os.path.dirname(os.path.abspath(__file__)))
from checks import CHECKS

ALL = ["C%02d" % i for i in range(1, 21)]
ENV = "GOFLAGS=-mod=mod GOPROXY=off GOSUMDB=off GOTOOLCHAIN=local"

def hook_commits():
    try:
        out = subprocess.run(["git", "-C", "/repo", "log", "--format=%h %s"], stdout=subprocess.PIPE, text=True).stdout
        return [l.split()[0] for l in out.splitlines() if l.split(" ", 1)[1].startswith("verif hooks")]
    except Exception:
        return []

m = {
    "version": 1,
    "setup_cmd": "cd /verif && %s ./run --setup" % ENV,
    "hooks": {
        "guard": "verif",
        "enable": "every check builds with `go test -c -tags verif -modfile=/verif/build/<id>/go.mod -overlay=/verif/build/<id>/overlay.json`: harness files under /verif/harness are injected into the repository's packages through the overlay, in-function hook points are compiled in by the tag; /repo is never written by a check",
        "baseline_off_cmd": "cd /repo && %s go test -vet=off -count=1 -timeout 25m ./..." % ENV,
        "source_commits": hook_commits(),
        "add_only": True,
    },
    "engines": [{
        "name": "run", "path": "/verif/run", "serves_properties": sorted(CHECKS),
        "kind_free_text": "python driver: builds in-package rapid / native-fuzz harnesses against /repo's working tree through a go build overlay, runs them sharded over the cores with seeds derived from VERIF_SEED, replays regress and known cases, merges per-shard evidence",
    }],
    "checks": [],
    "notes": "Property-based testing and fuzzing only; see DESIGN.md. Exit 2 = inconclusive infrastructure problem (never with a VIOLATION line).",
    "not_applicable": [],
}
for pid in ALL:
    if pid in CHECKS:
        s = CHECKS[pid]
        m["checks"].append({
            "property_id": pid,
            "quick_cmd": "cd /verif && %s ./run %s --tier quick" % (ENV, pid),
            "thorough_cmd": "cd /verif && %s ./run %s --tier thorough" % (ENV, pid),
            "evidence_file": "/verif/evidence/%s.json" % pid,
            "replay_cmd_template": "cd /verif && %s ./run %s --replay {path}" % (ENV, pid),
            "engine": "run",
            "level_claimed": {"category": s["level"], "text": s["level_text"], "design_ref": "DESIGN.md section 9, " + pid},
            "level_note": s["level_note"],
            "technique": s["technique"],
        })
    else:
        m["not_applicable"].append({"property_id": pid, "reason": "check not built yet in this session; property-based testing applies (see DESIGN.md), nothing is claimed until the check exists"})
json.dump(m, open(os.path.join(os.path.dirname(os.path.abspath(__file__)), "MANIFEST.json"), "w"), indent=1)
print("MANIFEST.json: %d checks, %d not claimed" % (len(m["checks"]), len(m["not_applicable"])))
try:
    r = subprocess.run(["python3-vt", "-c", "import json,jsonschema; jsonschema.validate(json.load(open('/verif/MANIFEST.json')), json.load(open('/root/.vp/MANIFEST.schema.json'))); print('schema ok')"], stdout=subprocess.PIPE, stderr=subprocess.STDOUT, text=True)
    print(r.stdout.strip()[-500:])
except FileNotFoundError:
    pass
